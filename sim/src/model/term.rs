//! Reference terminal model (RefTerm), written from the property statements (C04-C06, C16-C19) and
//! the DEC/xterm documents; not transliterated from avt: the structure is "grid of rows + explicit
//! rules". With `grid == false` it tracks only the hidden state and the cursor (no cell contents).
use crate::obs::*;
use avt::parser::{AnsiMode, CtcOp, DecMode, EdScope, ElScope, Function, SgrOp, TbcScope};
use std::collections::BTreeSet;

#[derive(Clone, Copy, PartialEq, Eq, Debug)]
pub struct Saved {
    pub col: usize,
    pub row: usize,
    pub pen: MPen,
    pub origin: bool,
    pub awm: bool,
}

impl Default for Saved {
    fn default() -> Self {
        Saved { col: 0, row: 0, pen: MPen::default(), origin: false, awm: true }
    }
}

const GFX: [char; 31] = [
    '♦', '▒', '␉', '␌', '␍', '␊', '°', '±', '␤', '␋', '┘', '┐', '┌', '└', '┼', '⎺', '⎻', '─', '⎼', '⎽', '├', '┤', '┴',
    '┬', '│', '≤', '≥', 'π', '≠', '£', '⋅',
];

#[derive(Clone, Debug)]
pub struct Model {
    pub cols: usize,
    pub rows: usize,
    pub view: Vec<MRow>,
    pub above: Vec<MRow>,
    pub col: usize,
    pub row: usize,
    pub visible: bool,
    pub appkeys: bool,
    // hidden
    pub alt: bool,
    pub parked: Option<(Vec<MRow>, Vec<MRow>)>, // primary (above, view) while alt shows
    pub resized_in_alt: bool,
    pub pen: MPen,
    pub drawing: [bool; 2],
    pub active: usize,
    pub tabs: BTreeSet<usize>,
    pub insert: bool,
    pub origin: bool,
    pub awm: bool,
    pub lnm: bool,
    pub top: usize,
    pub bottom: usize,
    pub saved: [Saved; 2],
    /// set by step() when the step touched a tolerated corner: list of component names to adopt
    pub tolerate: Vec<&'static str>,
    /// false: hidden-state tracker only (cell contents and scrollback are not maintained)
    pub grid: bool,
}

fn default_tabs(cols: usize) -> BTreeSet<usize> {
    (1..cols).filter(|c| c % 8 == 0).collect()
}

fn n1(n: u16) -> usize {
    if n == 0 { 1 } else { n as usize }
}

impl Model {
    pub fn new(cols: usize, rows: usize, grid: bool) -> Self {
        Model {
            cols,
            rows,
            view: vec![MRow::blank(cols, MPen::default()); rows],
            above: vec![],
            col: 0,
            row: 0,
            visible: true,
            appkeys: false,
            alt: false,
            parked: None,
            resized_in_alt: false,
            pen: MPen::default(),
            drawing: [false, false],
            active: 0,
            tabs: default_tabs(cols),
            insert: false,
            origin: false,
            awm: true,
            lnm: false,
            top: 0,
            bottom: rows - 1,
            saved: [Saved::default(), Saved::default()],
            tolerate: vec![],
            grid,
        }
    }

    pub fn obs(&self) -> Obs {
        Obs {
            cols: self.cols,
            rows: self.rows,
            view: self.view.clone(),
            above: self.above.clone(),
            col: self.col,
            row: self.row,
            visible: self.visible,
            appkeys: self.appkeys,
        }
    }

    pub fn adopt(&mut self, o: &Obs) {
        self.cols = o.cols;
        self.rows = o.rows;
        self.view = o.view.clone();
        self.above = o.above.clone();
        self.col = o.col;
        self.row = o.row;
        self.visible = o.visible;
        self.appkeys = o.appkeys;
    }

    /// adopt only the cursor / visibility / cursor-key mode (hidden-state tracker mode)
    pub fn adopt_cursor(&mut self, col: usize, row: usize, visible: bool, appkeys: bool) {
        self.col = col.min(self.cols);
        self.row = row.min(self.rows - 1);
        self.visible = visible;
        self.appkeys = appkeys;
    }

    pub fn pending(&self) -> bool {
        self.col >= self.cols
    }

    fn lcol(&self) -> usize {
        self.col.min(self.cols - 1)
    }

    fn sv(&mut self) -> &mut Saved {
        &mut self.saved[self.alt as usize]
    }

    fn blank_row(&self) -> MRow {
        MRow::blank(self.cols, self.pen)
    }

    // ---- scrolling primitives (C06) ----

    /// scroll rows [a, b] (inclusive) up by n
    fn scroll_up(&mut self, a: usize, b: usize, n: usize) {
        let h = b - a + 1;
        let n = n.min(h);
        if b < self.rows - 1 {
            self.view[b].wrapped = false;
        }
        if a > 0 {
            self.view[a - 1].wrapped = false;
        }
        let blank = self.blank_row();
        let off: Vec<MRow> = self.view.drain(a..a + n).collect();
        for i in 0..n {
            self.view.insert(b + 1 - n + i, blank.clone());
        }
        if a == 0 && !self.alt && self.grid {
            // rows leave through the top of the primary screen: they become scrollback
            self.above.extend(off);
        }
    }

    fn scroll_down(&mut self, a: usize, b: usize, n: usize) {
        let h = b - a + 1;
        let n = n.min(h);
        let blank = self.blank_row();
        self.view.drain(b + 1 - n..b + 1);
        for _ in 0..n {
            self.view.insert(a, blank.clone());
        }
        if a > 0 {
            self.view[a - 1].wrapped = false;
        }
        self.view[b].wrapped = false;
    }

    // ---- cursor primitives (C05) ----

    fn set_col(&mut self, c: usize) {
        self.col = c.min(self.cols - 1);
    }

    fn set_row(&mut self, r: usize) {
        // vertical placement leaves the wrap-pending column
        self.col = self.lcol();
        self.row = r;
    }

    fn addr_row(&mut self, r0: usize) {
        let (lo, hi) = if self.origin { (self.top, self.bottom) } else { (0, self.rows - 1) };
        let r = (lo + r0).min(hi);
        self.set_row(r);
    }

    fn home(&mut self) {
        self.col = 0;
        self.row = if self.origin { self.top } else { 0 };
    }

    fn up(&mut self, n: usize) {
        let limit = if self.row < self.top { 0 } else { self.top };
        let r = self.row.saturating_sub(n).max(limit);
        self.set_row(r);
    }

    fn down(&mut self, n: usize) {
        let limit = if self.row > self.bottom { self.rows - 1 } else { self.bottom };
        let r = (self.row + n).min(limit);
        self.set_row(r);
    }

    fn index_down(&mut self) {
        if self.row == self.bottom {
            self.scroll_up(self.top, self.bottom, 1);
        } else if self.row < self.rows - 1 {
            self.set_row(self.row + 1);
        }
    }

    fn next_tab(&mut self, n: usize) {
        let from = self.col; // wrap-pending: no stop beyond
        let t = self.tabs.iter().filter(|&&t| t > from).nth(n - 1).copied();
        self.set_col(t.unwrap_or(self.cols - 1));
    }

    fn prev_tab(&mut self, n: usize) {
        if self.pending() && self.tabs.contains(&(self.cols - 1)) {
            self.tolerate.push("cursor");
        }
        let from = self.col;
        let t = self.tabs.iter().rev().filter(|&&t| t < from).nth(n - 1).copied();
        self.set_col(t.unwrap_or(0));
    }

    // ---- print (C04) ----

    fn print(&mut self, ch: char) {
        let ch = if self.drawing[self.active] && ('\x60'..='\x7e').contains(&ch) { GFX[ch as usize - 0x60] } else { ch };
        let cell = MCell { ch, pen: self.pen };
        if self.awm && self.pending() {
            self.col = 0;
            if self.row == self.bottom {
                self.view[self.row].wrapped = true;
                if self.bottom < self.rows - 1 {
                    // the region scroll breaks/keeps continuity: tolerated either way
                    self.tolerate.push("wrapmark_left_row");
                }
                self.scroll_up(self.top, self.bottom, 1);
            } else if self.row < self.rows - 1 {
                self.view[self.row].wrapped = true;
                self.row += 1;
            }
        }
        if self.col + 1 >= self.cols {
            let last = self.cols - 1;
            self.view[self.row].cells[last] = cell;
            if self.awm {
                self.col = self.cols;
            }
        } else {
            let c = self.col;
            let row = &mut self.view[self.row];
            if self.insert {
                row.cells.insert(c, cell);
                row.cells.pop();
            } else {
                row.cells[c] = cell;
            }
            self.col += 1;
        }
    }

    fn save(&mut self) {
        let s = Saved { col: self.lcol(), row: self.row, pen: self.pen, origin: self.origin, awm: self.awm };
        *self.sv() = s;
    }

    fn restore(&mut self) {
        let s = *self.sv();
        // the restored position lies inside the screen (a stale saved position of the screen that
        // was parked during a resize is clamped when it is used)
        self.col = s.col.min(self.cols - 1);
        self.row = s.row.min(self.rows - 1);
        self.pen = s.pen;
        self.origin = s.origin;
        self.awm = s.awm;
    }

    fn clamp_saved(&mut self) {
        let (c, r) = (self.cols, self.rows);
        let s = self.sv();
        s.col = s.col.min(c - 1);
        s.row = s.row.min(r - 1);
    }

    fn enter_alt(&mut self) {
        if !self.alt {
            self.alt = true;
            self.resized_in_alt = false;
            let above = std::mem::take(&mut self.above);
            let fresh = vec![self.blank_row(); self.rows];
            let view = std::mem::replace(&mut self.view, fresh);
            self.parked = Some((above, view));
            self.clamp_saved();
        }
    }

    /// returns false if the primary cannot be predicted (resized during the excursion)
    fn leave_alt(&mut self) -> bool {
        if self.alt {
            self.alt = false;
            let (above, view) = self.parked.take().unwrap();
            self.above = above;
            self.view = view;
            if !self.grid {
                self.view = vec![MRow::blank(self.cols, MPen::default()); self.rows];
                self.row = self.row.min(self.rows - 1);
            }
            let ok = !self.resized_in_alt;
            self.resized_in_alt = false;
            return ok;
        }
        true
    }

    /// hidden-state rules for a resize; observable part must be adopted by the caller
    pub fn resize_hidden(&mut self, cols: usize, rows: usize) {
        if cols < self.cols {
            self.tabs = self.tabs.iter().copied().filter(|&t| t < cols).collect();
        } else if cols > self.cols {
            for t in self.cols..cols {
                if t % 8 == 0 {
                    self.tabs.insert(t);
                }
            }
        }
        if rows != self.rows {
            self.top = 0;
            self.bottom = rows - 1;
        }
        let changed = cols != self.cols || rows != self.rows;
        if cols != self.cols && self.col >= self.cols {
            // wrap pending does not survive a width change
            self.col = self.cols - 1;
        }
        self.cols = cols;
        self.rows = rows;
        self.clamp_saved();
        if self.alt && changed {
            self.resized_in_alt = true;
        }
        if !self.grid {
            self.view = vec![MRow::blank(cols, MPen::default()); rows];
            self.col = self.col.min(cols);
            self.row = self.row.min(rows - 1);
        }
    }

    /// Apply one function. Returns false when the observable result is not predictable (adopt).
    pub fn step(&mut self, f: &Function) -> bool {
        use Function::*;
        self.tolerate.clear();
        let mut predictable = true;
        match f {
            Print(ch) => self.print(*ch),
            Rep(n) => {
                if self.col > 0 {
                    let ch = self.view[self.row].cells[self.col - 1].ch;
                    if self.drawing[self.active] && ('\x60'..='\x7e').contains(&ch) {
                        self.tolerate.push("view");
                    }
                    for _ in 0..n1(*n) {
                        self.print(ch);
                    }
                }
            }
            Bs => {
                let c = self.lcol();
                self.set_col(c.saturating_sub(1));
            }
            Cub(n) => {
                let c = self.lcol();
                self.set_col(c.saturating_sub(n1(*n)));
            }
            Cuf(n) => {
                let c = self.lcol();
                self.set_col(c + n1(*n));
            }
            Cr => self.col = 0,
            Ht => self.next_tab(1),
            Cht(n) => self.next_tab(n1(*n)),
            Cbt(n) => self.prev_tab(n1(*n)),
            Cuu(n) => self.up(n1(*n)),
            Cud(n) | Vpr(n) => self.down(n1(*n)),
            Cnl(n) => {
                self.down(n1(*n));
                self.col = 0;
            }
            Cpl(n) => {
                self.up(n1(*n));
                self.col = 0;
            }
            Cha(n) => self.set_col(n1(*n) - 1),
            Vpa(n) => self.addr_row(n1(*n) - 1),
            Cup(r, c) => {
                self.set_col(n1(*c) - 1);
                self.addr_row(n1(*r) - 1);
            }
            Lf => {
                self.index_down();
                if self.lnm {
                    self.col = 0;
                }
            }
            Nel => {
                self.index_down();
                self.col = 0;
            }
            Ri => {
                if self.row == self.top {
                    self.scroll_down(self.top, self.bottom, 1);
                } else if self.row > 0 {
                    self.set_row(self.row - 1);
                }
            }
            Su(n) => self.scroll_up(self.top, self.bottom, n1(*n)),
            Sd(n) => self.scroll_down(self.top, self.bottom, n1(*n)),
            Il(n) => {
                let b = if self.row <= self.bottom { self.bottom } else { self.rows - 1 };
                self.scroll_down(self.row, b, n1(*n));
            }
            Dl(n) => {
                let b = if self.row <= self.bottom { self.bottom } else { self.rows - 1 };
                self.scroll_up(self.row, b, n1(*n));
            }
            Decstbm(t, b) => {
                let t = n1(*t) - 1;
                let b = if *b == 0 { self.rows - 1 } else { *b as usize - 1 };
                if t < b && b < self.rows {
                    self.top = t;
                    self.bottom = b;
                } else {
                    self.tolerate.push("cursor");
                }
                self.home();
            }
            Ich(n) => {
                if !self.pending() {
                    let c = self.col;
                    let k = n1(*n).min(self.cols - c);
                    let blank = MCell { ch: ' ', pen: self.pen };
                    let row = &mut self.view[self.row];
                    for _ in 0..k {
                        row.cells.insert(c, blank);
                        row.cells.pop();
                    }
                }
                self.tolerate.push("wrapmark_cursor_row");
            }
            Dch(n) => {
                self.col = self.lcol();
                let c = self.col;
                let k = n1(*n).min(self.cols - c);
                let blank = MCell { ch: ' ', pen: self.pen };
                let row = &mut self.view[self.row];
                for _ in 0..k {
                    row.cells.remove(c);
                    row.cells.push(blank);
                }
                row.wrapped = false;
            }
            Ech(n) => {
                let blank = MCell { ch: ' ', pen: self.pen };
                if self.pending() {
                    self.tolerate.push("wrapmark_cursor_row");
                } else {
                    let c = self.col;
                    let e = (c + n1(*n)).min(self.cols);
                    let row = &mut self.view[self.row];
                    for x in c..e {
                        row.cells[x] = blank;
                    }
                    if e == self.cols {
                        row.wrapped = false;
                    }
                }
            }
            El(scope) => {
                let blank = MCell { ch: ' ', pen: self.pen };
                let (cols, col, pend) = (self.cols, self.col, self.pending());
                let row = &mut self.view[self.row];
                match scope {
                    ElScope::ToRight => {
                        for x in col.min(cols)..cols {
                            row.cells[x] = blank;
                        }
                        row.wrapped = false;
                        if pend {
                            self.tolerate.push("wrapmark_cursor_row");
                        }
                    }
                    ElScope::ToLeft => {
                        for x in 0..(col + 1).min(cols) {
                            row.cells[x] = blank;
                        }
                        self.tolerate.push("wrapmark_cursor_row");
                    }
                    ElScope::All => {
                        for x in 0..cols {
                            row.cells[x] = blank;
                        }
                        row.wrapped = false;
                    }
                    #[allow(unreachable_patterns)]
                    _ => {}
                }
            }
            Ed(scope) => {
                let blank = MCell { ch: ' ', pen: self.pen };
                let (cols, col, r, pend) = (self.cols, self.col, self.row, self.pending());
                match scope {
                    EdScope::Below => {
                        for x in col.min(cols)..cols {
                            self.view[r].cells[x] = blank;
                        }
                        self.view[r].wrapped = false;
                        if pend {
                            self.tolerate.push("wrapmark_cursor_row");
                        }
                        for y in r + 1..self.rows {
                            self.view[y] = self.blank_row();
                        }
                    }
                    EdScope::Above => {
                        for x in 0..(col + 1).min(cols) {
                            self.view[r].cells[x] = blank;
                        }
                        self.tolerate.push("wrapmark_cursor_row");
                        for y in 0..r {
                            self.view[y] = self.blank_row();
                        }
                    }
                    EdScope::All => {
                        for y in 0..self.rows {
                            self.view[y] = self.blank_row();
                        }
                    }
                    EdScope::SavedLines => {
                        self.tolerate.push("above");
                    }
                    #[allow(unreachable_patterns)]
                    _ => {}
                }
            }
            Decaln => {
                let e = MCell { ch: 'E', pen: MPen::default() };
                for row in self.view.iter_mut() {
                    for c in row.cells.iter_mut() {
                        *c = e;
                    }
                }
                self.tolerate.push("wrapmarks");
            }
            Sgr(ops) => {
                for op in ops {
                    use SgrOp::*;
                    match op {
                        Reset => self.pen = MPen::default(),
                        SetBoldIntensity => self.pen.intensity = 1,
                        SetFaintIntensity => self.pen.intensity = 2,
                        ResetIntensity => self.pen.intensity = 0,
                        SetItalic => self.pen.italic = true,
                        ResetItalic => self.pen.italic = false,
                        SetUnderline => self.pen.underline = true,
                        ResetUnderline => self.pen.underline = false,
                        SetBlink => self.pen.blink = true,
                        ResetBlink => self.pen.blink = false,
                        SetInverse => self.pen.inverse = true,
                        ResetInverse => self.pen.inverse = false,
                        SetStrikethrough => self.pen.strike = true,
                        ResetStrikethrough => self.pen.strike = false,
                        SetForegroundColor(c) => self.pen.fg = Some(conv_color(*c)),
                        ResetForegroundColor => self.pen.fg = None,
                        SetBackgroundColor(c) => self.pen.bg = Some(conv_color(*c)),
                        ResetBackgroundColor => self.pen.bg = None,
                        #[allow(unreachable_patterns)]
                        _ => {}
                    }
                }
            }
            So => self.active = 1,
            Si => self.active = 0,
            Gzd4(cs) => self.drawing[0] = format!("{:?}", cs) == "Drawing",
            G1d4(cs) => self.drawing[1] = format!("{:?}", cs) == "Drawing",
            Hts => {
                if self.col > 0 && self.col < self.cols {
                    self.tabs.insert(self.col);
                }
            }
            Ctc(CtcOp::Set) => {
                if self.col > 0 && self.col < self.cols {
                    self.tabs.insert(self.col);
                }
            }
            Ctc(CtcOp::ClearCurrentColumn) | Tbc(TbcScope::CurrentColumn) => {
                self.tabs.remove(&self.col);
            }
            Ctc(CtcOp::ClearAll) | Tbc(TbcScope::All) => self.tabs.clear(),
            Sm(modes) => {
                for m in modes {
                    match m {
                        AnsiMode::Insert => self.insert = true,
                        AnsiMode::NewLine => self.lnm = true,
                        #[allow(unreachable_patterns)]
                        _ => {}
                    }
                }
            }
            Rm(modes) => {
                for m in modes {
                    match m {
                        AnsiMode::Insert => self.insert = false,
                        AnsiMode::NewLine => self.lnm = false,
                        #[allow(unreachable_patterns)]
                        _ => {}
                    }
                }
            }
            Decsc | Scosc => self.save(),
            Decrc | Scorc => self.restore(),
            Decset(modes) => {
                for m in modes {
                    match m {
                        DecMode::CursorKeys => self.appkeys = true,
                        DecMode::Origin => {
                            self.origin = true;
                            self.home();
                        }
                        DecMode::AutoWrap => self.awm = true,
                        DecMode::TextCursorEnable => self.visible = true,
                        DecMode::AltScreenBuffer => self.enter_alt(),
                        DecMode::SaveCursor => self.save(),
                        DecMode::SaveCursorAltScreenBuffer => {
                            self.save();
                            self.enter_alt();
                        }
                        #[allow(unreachable_patterns)]
                        _ => {}
                    }
                }
            }
            Decrst(modes) => {
                for m in modes {
                    match m {
                        DecMode::CursorKeys => self.appkeys = false,
                        DecMode::Origin => {
                            self.origin = false;
                            self.home();
                        }
                        DecMode::AutoWrap => self.awm = false,
                        DecMode::TextCursorEnable => self.visible = false,
                        DecMode::AltScreenBuffer => {
                            if !self.leave_alt() {
                                predictable = false;
                            }
                            self.clamp_saved();
                        }
                        DecMode::SaveCursor => self.restore(),
                        DecMode::SaveCursorAltScreenBuffer => {
                            let ok = self.leave_alt();
                            self.restore();
                            self.clamp_saved();
                            if !ok {
                                predictable = false;
                            }
                        }
                        #[allow(unreachable_patterns)]
                        _ => {}
                    }
                }
            }
            Decstr => {
                self.visible = true;
                self.top = 0;
                self.bottom = self.rows - 1;
                self.insert = false;
                self.origin = false;
                self.pen = MPen::default();
                self.drawing = [false, false];
                self.active = 0;
                *self.sv() = Saved::default();
            }
            Ris => {
                let (c, r, g) = (self.cols, self.rows, self.grid);
                *self = Model::new(c, r, g);
            }
            Xtwinops(_) => {}
            // a function this harness does not know (the library was extended): nothing to model
            #[allow(unreachable_patterns)]
            _ => {}
        }
        predictable
    }
}
