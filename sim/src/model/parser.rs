//! Reference parser (RefParser): Paul Williams' DEC-compatible state machine with the four stated
//! deviations (':' separates sub-parameters inside CSI parameters; BEL ends OSC; C1 = U+0080-U+009F
//! handled "anywhere"; every scalar >= U+00A0 is classified like 'A'). Written as
//! "anywhere rules, then one block per state"; parameters are rebuilt from scratch for every
//! sequence, so memorylessness holds by construction here.

use crate::obs::MColor;
use avt::parser::{AnsiMode, CtcOp, DecMode, EdScope, ElScope, Function, SgrOp, State, TbcScope, XtwinopsOp};

#[derive(Clone, Copy, PartialEq, Eq, Debug, PartialOrd, Ord)]
pub enum St {
    Ground,
    Escape,
    EscapeIntermediate,
    CsiEntry,
    CsiParam,
    CsiIntermediate,
    CsiIgnore,
    DcsEntry,
    DcsParam,
    DcsIntermediate,
    DcsPassthrough,
    DcsIgnore,
    OscString,
    SosPmApcString,
}

pub const ALL_STATES: [St; 14] = [
    St::Ground,
    St::Escape,
    St::EscapeIntermediate,
    St::CsiEntry,
    St::CsiParam,
    St::CsiIntermediate,
    St::CsiIgnore,
    St::DcsEntry,
    St::DcsParam,
    St::DcsIntermediate,
    St::DcsPassthrough,
    St::DcsIgnore,
    St::OscString,
    St::SosPmApcString,
];

pub fn st_of(s: &State) -> St {
    match s {
        State::Ground => St::Ground,
        State::Escape => St::Escape,
        State::EscapeIntermediate => St::EscapeIntermediate,
        State::CsiEntry => St::CsiEntry,
        State::CsiParam => St::CsiParam,
        State::CsiIntermediate => St::CsiIntermediate,
        State::CsiIgnore => St::CsiIgnore,
        State::DcsEntry => St::DcsEntry,
        State::DcsParam => St::DcsParam,
        State::DcsIntermediate => St::DcsIntermediate,
        State::DcsPassthrough => St::DcsPassthrough,
        State::DcsIgnore => St::DcsIgnore,
        State::OscString => St::OscString,
        State::SosPmApcString => St::SosPmApcString,
        #[allow(unreachable_patterns)]
        _ => St::Ground,
    }
}

#[derive(Clone, Copy, PartialEq, Eq, Debug)]
pub enum RSgr {
    Reset,
    Bold,
    Faint,
    Italic,
    Underline,
    Blink,
    Inverse,
    Strike,
    NoIntensity,
    NoItalic,
    NoUnderline,
    NoBlink,
    NoInverse,
    NoStrike,
    Fg(MColor),
    NoFg,
    Bg(MColor),
    NoBg,
    /// an operation this harness does not know (the library was extended)
    Unknown,
}

/// Mirror of `avt::parser::Function` (variant by variant) in reference vocabulary.
#[derive(Clone, PartialEq, Eq, Debug)]
pub enum RF {
    Bs,
    Cbt(u16),
    Cha(u16),
    Cht(u16),
    Cnl(u16),
    Cpl(u16),
    Cr,
    CtcSet,
    CtcClearCol,
    CtcClearAll,
    Cub(u16),
    Cud(u16),
    Cuf(u16),
    Cup(u16, u16),
    Cuu(u16),
    Dch(u16),
    Decaln,
    Decrc,
    Decrst(Vec<u16>),
    Decsc,
    Decset(Vec<u16>),
    Decstbm(u16, u16),
    Decstr,
    Dl(u16),
    Ech(u16),
    Ed(u8),
    El(u8),
    G0(bool),
    G1(bool),
    Ht,
    Hts,
    Ich(u16),
    Il(u16),
    Lf,
    Nel,
    Print(char),
    Rep(u16),
    Ri,
    Ris,
    Rm(Vec<u16>),
    Scorc,
    Scosc,
    Sd(u16),
    Sgr(Vec<RSgr>),
    Si,
    Sm(Vec<u16>),
    So,
    Su(u16),
    TbcCol,
    TbcAll,
    Vpa(u16),
    Vpr(u16),
    XtResize(u16, u16),
    Unknown(String),
}

fn dec_num(m: &DecMode) -> u16 {
    match m {
        DecMode::CursorKeys => 1,
        DecMode::Origin => 6,
        DecMode::AutoWrap => 7,
        DecMode::TextCursorEnable => 25,
        DecMode::AltScreenBuffer => 1047,
        DecMode::SaveCursor => 1048,
        DecMode::SaveCursorAltScreenBuffer => 1049,
        // a mode this harness does not know (the library was extended): keep going
        #[allow(unreachable_patterns)]
        _ => 0,
    }
}

fn ansi_num(m: &AnsiMode) -> u16 {
    match m {
        AnsiMode::Insert => 4,
        AnsiMode::NewLine => 20,
        #[allow(unreachable_patterns)]
        _ => 0,
    }
}

pub fn rsgr_of(op: &SgrOp) -> RSgr {
    use SgrOp::*;
    match op {
        Reset => RSgr::Reset,
        SetBoldIntensity => RSgr::Bold,
        SetFaintIntensity => RSgr::Faint,
        SetItalic => RSgr::Italic,
        SetUnderline => RSgr::Underline,
        SetBlink => RSgr::Blink,
        SetInverse => RSgr::Inverse,
        SetStrikethrough => RSgr::Strike,
        ResetIntensity => RSgr::NoIntensity,
        ResetItalic => RSgr::NoItalic,
        ResetUnderline => RSgr::NoUnderline,
        ResetBlink => RSgr::NoBlink,
        ResetInverse => RSgr::NoInverse,
        ResetStrikethrough => RSgr::NoStrike,
        SetForegroundColor(c) => RSgr::Fg(crate::obs::conv_color(*c)),
        ResetForegroundColor => RSgr::NoFg,
        SetBackgroundColor(c) => RSgr::Bg(crate::obs::conv_color(*c)),
        ResetBackgroundColor => RSgr::NoBg,
        #[allow(unreachable_patterns)]
        _ => RSgr::Unknown,
    }
}

/// `Charset` cannot be named from outside avt; its Debug name is the public view of it.
pub fn is_drawing<T: std::fmt::Debug>(cs: &T) -> bool {
    format!("{:?}", cs) == "Drawing"
}

pub fn rf_of(f: &Function) -> RF {
    use Function::*;
    match f {
        Bs => RF::Bs,
        Cbt(n) => RF::Cbt(*n),
        Cha(n) => RF::Cha(*n),
        Cht(n) => RF::Cht(*n),
        Cnl(n) => RF::Cnl(*n),
        Cpl(n) => RF::Cpl(*n),
        Cr => RF::Cr,
        Ctc(CtcOp::Set) => RF::CtcSet,
        Ctc(CtcOp::ClearCurrentColumn) => RF::CtcClearCol,
        Ctc(CtcOp::ClearAll) => RF::CtcClearAll,
        Cub(n) => RF::Cub(*n),
        Cud(n) => RF::Cud(*n),
        Cuf(n) => RF::Cuf(*n),
        Cup(r, c) => RF::Cup(*r, *c),
        Cuu(n) => RF::Cuu(*n),
        Dch(n) => RF::Dch(*n),
        Decaln => RF::Decaln,
        Decrc => RF::Decrc,
        Decrst(m) => RF::Decrst(m.iter().map(dec_num).collect()),
        Decsc => RF::Decsc,
        Decset(m) => RF::Decset(m.iter().map(dec_num).collect()),
        Decstbm(t, b) => RF::Decstbm(*t, *b),
        Decstr => RF::Decstr,
        Dl(n) => RF::Dl(*n),
        Ech(n) => RF::Ech(*n),
        Ed(EdScope::Below) => RF::Ed(0),
        Ed(EdScope::Above) => RF::Ed(1),
        Ed(EdScope::All) => RF::Ed(2),
        Ed(EdScope::SavedLines) => RF::Ed(3),
        El(ElScope::ToRight) => RF::El(0),
        El(ElScope::ToLeft) => RF::El(1),
        El(ElScope::All) => RF::El(2),
        G1d4(cs) => RF::G1(is_drawing(cs)),
        Gzd4(cs) => RF::G0(is_drawing(cs)),
        Ht => RF::Ht,
        Hts => RF::Hts,
        Ich(n) => RF::Ich(*n),
        Il(n) => RF::Il(*n),
        Lf => RF::Lf,
        Nel => RF::Nel,
        Print(c) => RF::Print(*c),
        Rep(n) => RF::Rep(*n),
        Ri => RF::Ri,
        Ris => RF::Ris,
        Rm(m) => RF::Rm(m.iter().map(ansi_num).collect()),
        Scorc => RF::Scorc,
        Scosc => RF::Scosc,
        Sd(n) => RF::Sd(*n),
        Sgr(ops) => RF::Sgr(ops.iter().map(rsgr_of).collect()),
        Si => RF::Si,
        Sm(m) => RF::Sm(m.iter().map(ansi_num).collect()),
        So => RF::So,
        Su(n) => RF::Su(*n),
        Tbc(TbcScope::CurrentColumn) => RF::TbcCol,
        Tbc(TbcScope::All) => RF::TbcAll,
        Vpa(n) => RF::Vpa(*n),
        Vpr(n) => RF::Vpr(*n),
        Xtwinops(XtwinopsOp::Resize(c, r)) => RF::XtResize(*c, *r),
        // a function / scope this harness does not know (the library was extended)
        #[allow(unreachable_patterns)]
        other => RF::Unknown(format!("{:?}", other)),
    }
}

/// What kind of action a (state, char) step performed - the vocabulary of the property statement.
#[derive(Clone, Copy, PartialEq, Eq, Debug)]
pub enum Action {
    Ignore,
    Print,
    Execute,
    Collect,
    Param,
    EscDispatch,
    CsiDispatch,
    Put,
    Enter, // state entry only (hook/unhook/osc start/end, clear)
}

#[derive(Clone)]
pub struct RefParser {
    pub st: St,
    params: Vec<Vec<u16>>,
    inter: Option<char>,
    pub last_action: Action,
}

fn c0_exec(c: u32) -> bool {
    matches!(c, 0x00..=0x17 | 0x19 | 0x1c..=0x1f)
}

impl Default for RefParser {
    fn default() -> Self {
        Self::new()
    }
}

impl RefParser {
    pub fn new() -> Self {
        RefParser { st: St::Ground, params: vec![vec![0]], inter: None, last_action: Action::Ignore }
    }

    fn clear(&mut self) {
        self.params = vec![vec![0]];
        self.inter = None;
    }

    fn param(&mut self, ch: char) {
        match ch {
            ';' => {
                if self.params.len() < 32 {
                    self.params.push(vec![0]);
                }
                // more than 32 parameters: further ';' keep writing into the 32nd
            }
            ':' => {
                let p = self.params.last_mut().unwrap();
                if p.len() < 6 {
                    p.push(0);
                }
                // more than 6 sub-parts: further ':' keep writing into the 6th
            }
            d => {
                let p = self.params.last_mut().unwrap();
                let v = p.last_mut().unwrap();
                // accumulated in 32 bits, truncated to 16
                *v = ((*v as u32) * 10 + (d as u32 - 0x30)) as u16;
            }
        }
    }

    fn p(&self, i: usize) -> u16 {
        self.params.get(i).map(|p| p[0]).unwrap_or(0)
    }

    fn exec(&mut self, c: u32) -> Option<RF> {
        self.last_action = Action::Execute;
        Some(match c {
            0x08 => RF::Bs,
            0x09 => RF::Ht,
            0x0a | 0x0b | 0x0c | 0x84 => RF::Lf,
            0x0d => RF::Cr,
            0x0e => RF::So,
            0x0f => RF::Si,
            0x85 => RF::Nel,
            0x88 => RF::Hts,
            0x8d => RF::Ri,
            _ => return None,
        })
    }

    fn esc_dispatch(&mut self, ch: char) -> Option<RF> {
        let c = ch as u32;
        let r = match (self.inter, ch) {
            // 7-bit ESC Fe acts exactly like its 8-bit C1 counterpart
            (None, _) if (0x40..=0x5f).contains(&c) => {
                let r = self.exec(c + 0x40);
                self.last_action = Action::EscDispatch;
                return r;
            }
            (None, '7') => Some(RF::Decsc),
            (None, '8') => Some(RF::Decrc),
            (None, 'c') => Some(RF::Ris),
            (Some('#'), '8') => Some(RF::Decaln),
            (Some('('), '0') => Some(RF::G0(true)),
            (Some('('), _) => Some(RF::G0(false)),
            (Some(')'), '0') => Some(RF::G1(true)),
            (Some(')'), _) => Some(RF::G1(false)),
            _ => None,
        };
        self.last_action = Action::EscDispatch;
        r
    }

    fn sgr(&self) -> RF {
        let ps = &self.params;
        let mut out: Vec<RSgr> = vec![];
        let mut i = 0;
        let simple = |n: u16| -> Option<RSgr> {
            Some(match n {
                0 => RSgr::Reset,
                1 => RSgr::Bold,
                2 => RSgr::Faint,
                3 => RSgr::Italic,
                4 => RSgr::Underline,
                5 => RSgr::Blink,
                7 => RSgr::Inverse,
                9 => RSgr::Strike,
                21 | 22 => RSgr::NoIntensity,
                23 => RSgr::NoItalic,
                24 => RSgr::NoUnderline,
                25 => RSgr::NoBlink,
                27 => RSgr::NoInverse,
                29 => RSgr::NoStrike,
                30..=37 => RSgr::Fg(MColor::Idx((n - 30) as u8)),
                39 => RSgr::NoFg,
                40..=47 => RSgr::Bg(MColor::Idx((n - 40) as u8)),
                49 => RSgr::NoBg,
                90..=97 => RSgr::Fg(MColor::Idx((n - 90 + 8) as u8)),
                100..=107 => RSgr::Bg(MColor::Idx((n - 100 + 8) as u8)),
                _ => return None,
            })
        };
        let mk = |fg: bool, c: MColor| if fg { RSgr::Fg(c) } else { RSgr::Bg(c) };
        while i < ps.len() {
            let p = &ps[i];
            if p.len() == 1 {
                let n = p[0];
                if n == 38 || n == 48 {
                    let fg = n == 38;
                    match ps.get(i + 1).map(|q| q.as_slice()) {
                        None => {
                            i += 1;
                        }
                        Some([2]) => {
                            if i + 4 < ps.len() {
                                out.push(mk(fg, MColor::Rgb(ps[i + 2][0] as u8, ps[i + 3][0] as u8, ps[i + 4][0] as u8)));
                                i += 5;
                            } else {
                                i += 2;
                            }
                        }
                        Some([5]) => {
                            if i + 2 < ps.len() {
                                out.push(mk(fg, MColor::Idx(ps[i + 2][0] as u8)));
                                i += 3;
                            } else {
                                i += 2;
                            }
                        }
                        Some(_) => {
                            i += 1;
                        }
                    }
                    continue;
                }
                if let Some(s) = simple(n) {
                    out.push(s);
                }
                i += 1;
            } else {
                let which = match p[0] {
                    38 => Some(true),
                    48 => Some(false),
                    _ => None,
                };
                if let Some(fg) = which {
                    match p.as_slice() {
                        [_, 2, r, g, b] | [_, 2, _, r, g, b] => out.push(mk(fg, MColor::Rgb(*r as u8, *g as u8, *b as u8))),
                        [_, 5, idx] => out.push(mk(fg, MColor::Idx(*idx as u8))),
                        _ => {}
                    }
                }
                i += 1;
            }
        }
        RF::Sgr(out)
    }

    fn modes(&self, dec: bool) -> Vec<u16> {
        let mut v = vec![];
        for p in &self.params {
            let n = p[0];
            let m = if dec {
                match n {
                    1 | 6 | 7 | 25 | 1047 | 1048 | 1049 => n,
                    47 => 1047,
                    _ => continue,
                }
            } else {
                match n {
                    4 | 20 => n,
                    _ => continue,
                }
            };
            v.push(m);
        }
        v
    }

    fn csi_dispatch(&mut self, ch: char) -> Option<RF> {
        self.last_action = Action::CsiDispatch;
        let (p0, p1, p2) = (self.p(0), self.p(1), self.p(2));
        match (self.inter, ch) {
            (None, '@') => Some(RF::Ich(p0)),
            (None, 'A') => Some(RF::Cuu(p0)),
            (None, 'B') => Some(RF::Cud(p0)),
            (None, 'C') | (None, 'a') => Some(RF::Cuf(p0)),
            (None, 'D') => Some(RF::Cub(p0)),
            (None, 'E') => Some(RF::Cnl(p0)),
            (None, 'F') => Some(RF::Cpl(p0)),
            (None, 'G') | (None, '`') => Some(RF::Cha(p0)),
            (None, 'H') | (None, 'f') => Some(RF::Cup(p0, p1)),
            (None, 'I') => Some(RF::Cht(p0)),
            (None, 'J') => match p0 {
                0..=3 => Some(RF::Ed(p0 as u8)),
                _ => None,
            },
            (None, 'K') => match p0 {
                0..=2 => Some(RF::El(p0 as u8)),
                _ => None,
            },
            (None, 'L') => Some(RF::Il(p0)),
            (None, 'M') => Some(RF::Dl(p0)),
            (None, 'P') => Some(RF::Dch(p0)),
            (None, 'S') => Some(RF::Su(p0)),
            (None, 'T') => Some(RF::Sd(p0)),
            (None, 'W') => match p0 {
                0 => Some(RF::CtcSet),
                2 => Some(RF::CtcClearCol),
                5 => Some(RF::CtcClearAll),
                _ => None,
            },
            (None, 'X') => Some(RF::Ech(p0)),
            (None, 'Z') => Some(RF::Cbt(p0)),
            (None, 'b') => Some(RF::Rep(p0)),
            (None, 'd') => Some(RF::Vpa(p0)),
            (None, 'e') => Some(RF::Vpr(p0)),
            (None, 'g') => match p0 {
                0 => Some(RF::TbcCol),
                3 => Some(RF::TbcAll),
                _ => None,
            },
            (None, 'h') => Some(RF::Sm(self.modes(false))),
            (None, 'l') => Some(RF::Rm(self.modes(false))),
            (None, 'm') => Some(self.sgr()),
            (None, 'r') => Some(RF::Decstbm(p0, p1)),
            (None, 's') => Some(RF::Scosc),
            (None, 'u') => Some(RF::Scorc),
            (None, 't') => {
                if p0 == 8 {
                    Some(RF::XtResize(p2, p1))
                } else {
                    None
                }
            }
            (Some('!'), 'p') => Some(RF::Decstr),
            (Some('?'), 'h') => Some(RF::Decset(self.modes(true))),
            (Some('?'), 'l') => Some(RF::Decrst(self.modes(true))),
            _ => None,
        }
    }

    fn collect(&mut self, ch: char) {
        self.inter = Some(ch);
        self.last_action = Action::Collect;
    }

    pub fn feed(&mut self, ch: char) -> Option<RF> {
        use St::*;
        self.last_action = Action::Ignore;
        let c = if ch >= '\u{a0}' { 0x41 } else { ch as u32 };
        // "anywhere" transitions
        match c {
            0x18 | 0x1a | 0x80..=0x8f | 0x91..=0x97 | 0x99 | 0x9a => {
                self.st = Ground;
                return self.exec(c);
            }
            0x1b => {
                self.st = Escape;
                self.clear();
                self.last_action = Action::Enter;
                return None;
            }
            0x9c => {
                self.st = Ground;
                self.last_action = Action::Enter;
                return None;
            }
            0x98 | 0x9e | 0x9f => {
                self.st = SosPmApcString;
                self.last_action = Action::Enter;
                return None;
            }
            0x90 => {
                self.st = DcsEntry;
                self.clear();
                self.last_action = Action::Enter;
                return None;
            }
            0x9d => {
                self.st = OscString;
                self.last_action = Action::Enter;
                return None;
            }
            0x9b => {
                self.st = CsiEntry;
                self.clear();
                self.last_action = Action::Enter;
                return None;
            }
            _ => {}
        }
        match self.st {
            Ground => {
                if c0_exec(c) {
                    return self.exec(c);
                }
                if (0x20..=0x7f).contains(&c) {
                    self.last_action = Action::Print;
                    return Some(RF::Print(ch));
                }
                None
            }
            Escape => {
                if c0_exec(c) {
                    return self.exec(c);
                }
                match c {
                    0x20..=0x2f => {
                        self.st = EscapeIntermediate;
                        self.collect(ch);
                        None
                    }
                    0x5b => {
                        self.st = CsiEntry;
                        self.clear();
                        self.last_action = Action::Enter;
                        None
                    }
                    0x5d => {
                        self.st = OscString;
                        self.last_action = Action::Enter;
                        None
                    }
                    0x50 => {
                        self.st = DcsEntry;
                        self.clear();
                        self.last_action = Action::Enter;
                        None
                    }
                    0x58 | 0x5e | 0x5f => {
                        self.st = SosPmApcString;
                        self.last_action = Action::Enter;
                        None
                    }
                    0x30..=0x7e => {
                        self.st = Ground;
                        self.esc_dispatch(ch)
                    }
                    _ => None, // DEL ignored
                }
            }
            EscapeIntermediate => {
                if c0_exec(c) {
                    return self.exec(c);
                }
                match c {
                    0x20..=0x2f => {
                        self.collect(ch);
                        None
                    }
                    0x30..=0x7e => {
                        self.st = Ground;
                        self.esc_dispatch(ch)
                    }
                    _ => None,
                }
            }
            CsiEntry => {
                if c0_exec(c) {
                    return self.exec(c);
                }
                match c {
                    0x20..=0x2f => {
                        self.st = CsiIntermediate;
                        self.collect(ch);
                        None
                    }
                    0x3a => {
                        self.st = CsiIgnore;
                        None
                    }
                    0x30..=0x39 | 0x3b => {
                        self.st = CsiParam;
                        self.param(ch);
                        self.last_action = Action::Param;
                        None
                    }
                    0x3c..=0x3f => {
                        self.st = CsiParam;
                        self.collect(ch);
                        None
                    }
                    0x40..=0x7e => {
                        self.st = Ground;
                        self.csi_dispatch(ch)
                    }
                    _ => None,
                }
            }
            CsiParam => {
                if c0_exec(c) {
                    return self.exec(c);
                }
                match c {
                    0x30..=0x3b => {
                        self.param(ch);
                        self.last_action = Action::Param;
                        None
                    }
                    0x3c..=0x3f => {
                        self.st = CsiIgnore;
                        None
                    }
                    0x20..=0x2f => {
                        self.st = CsiIntermediate;
                        self.collect(ch);
                        None
                    }
                    0x40..=0x7e => {
                        self.st = Ground;
                        self.csi_dispatch(ch)
                    }
                    _ => None,
                }
            }
            CsiIntermediate => {
                if c0_exec(c) {
                    return self.exec(c);
                }
                match c {
                    0x20..=0x2f => {
                        self.collect(ch);
                        None
                    }
                    0x30..=0x3f => {
                        self.st = CsiIgnore;
                        None
                    }
                    0x40..=0x7e => {
                        self.st = Ground;
                        self.csi_dispatch(ch)
                    }
                    _ => None,
                }
            }
            CsiIgnore => {
                if c0_exec(c) {
                    return self.exec(c);
                }
                if (0x40..=0x7e).contains(&c) {
                    self.st = Ground;
                }
                None
            }
            DcsEntry => {
                match c {
                    0x20..=0x2f => {
                        self.st = DcsIntermediate;
                        self.collect(ch);
                    }
                    0x3a => {
                        self.st = DcsIgnore;
                    }
                    0x30..=0x39 | 0x3b => {
                        self.st = DcsParam;
                        self.param(ch);
                        self.last_action = Action::Param;
                    }
                    0x3c..=0x3f => {
                        self.st = DcsParam;
                        self.collect(ch);
                    }
                    0x40..=0x7e => {
                        self.st = DcsPassthrough;
                        self.last_action = Action::Enter;
                    }
                    _ => {}
                }
                None
            }
            DcsParam => {
                match c {
                    0x30..=0x39 | 0x3b => {
                        self.param(ch);
                        self.last_action = Action::Param;
                    }
                    0x3a | 0x3c..=0x3f => {
                        self.st = DcsIgnore;
                    }
                    0x20..=0x2f => {
                        self.st = DcsIntermediate;
                        self.collect(ch);
                    }
                    0x40..=0x7e => {
                        self.st = DcsPassthrough;
                        self.last_action = Action::Enter;
                    }
                    _ => {}
                }
                None
            }
            DcsIntermediate => {
                match c {
                    0x20..=0x2f => {
                        self.collect(ch);
                    }
                    0x30..=0x3f => {
                        self.st = DcsIgnore;
                    }
                    0x40..=0x7e => {
                        self.st = DcsPassthrough;
                        self.last_action = Action::Enter;
                    }
                    _ => {}
                }
                None
            }
            DcsPassthrough => {
                if c != 0x7f {
                    self.last_action = Action::Put;
                }
                None
            }
            DcsIgnore | SosPmApcString => None,
            OscString => {
                if c == 0x07 {
                    self.st = Ground;
                    self.last_action = Action::Enter;
                } else if (0x20..=0x7f).contains(&c) {
                    self.last_action = Action::Put;
                }
                None
            }
        }
    }
}

/// Canonical 7-bit rendering of a reference function: feeding it to a terminal whose parser is in
/// Ground must execute exactly this function (used by C03's end-to-end comparison).
pub fn render(rf: &RF) -> String {
    use crate::obs::MColor;
    let modes = |v: &Vec<u16>| v.iter().map(|m| m.to_string()).collect::<Vec<_>>().join(";");
    let col = |base: u32, c: &MColor| match c {
        MColor::Idx(i) => format!("{}:5:{}", base + 8, i),
        MColor::Rgb(r, g, b) => format!("{}:2:{}:{}:{}", base + 8, r, g, b),
    };
    match rf {
        RF::Bs => "\x08".into(),
        RF::Cbt(n) => format!("\x1b[{}Z", n),
        RF::Cha(n) => format!("\x1b[{}G", n),
        RF::Cht(n) => format!("\x1b[{}I", n),
        RF::Cnl(n) => format!("\x1b[{}E", n),
        RF::Cpl(n) => format!("\x1b[{}F", n),
        RF::Cr => "\r".into(),
        RF::CtcSet => "\x1b[0W".into(),
        RF::CtcClearCol => "\x1b[2W".into(),
        RF::CtcClearAll => "\x1b[5W".into(),
        RF::Cub(n) => format!("\x1b[{}D", n),
        RF::Cud(n) => format!("\x1b[{}B", n),
        RF::Cuf(n) => format!("\x1b[{}C", n),
        RF::Cup(r, c) => format!("\x1b[{};{}H", r, c),
        RF::Cuu(n) => format!("\x1b[{}A", n),
        RF::Dch(n) => format!("\x1b[{}P", n),
        RF::Decaln => "\x1b#8".into(),
        RF::Decrc => "\x1b8".into(),
        RF::Decrst(m) => format!("\x1b[?{}l", modes(m)),
        RF::Decsc => "\x1b7".into(),
        RF::Decset(m) => format!("\x1b[?{}h", modes(m)),
        RF::Decstbm(t, b) => format!("\x1b[{};{}r", t, b),
        RF::Decstr => "\x1b[!p".into(),
        RF::Dl(n) => format!("\x1b[{}M", n),
        RF::Ech(n) => format!("\x1b[{}X", n),
        RF::Ed(n) => format!("\x1b[{}J", n),
        RF::El(n) => format!("\x1b[{}K", n),
        RF::G0(d) => format!("\x1b({}", if *d { '0' } else { 'B' }),
        RF::G1(d) => format!("\x1b){}", if *d { '0' } else { 'B' }),
        RF::Ht => "\t".into(),
        RF::Hts => "\x1bH".into(),
        RF::Ich(n) => format!("\x1b[{}@", n),
        RF::Il(n) => format!("\x1b[{}L", n),
        RF::Lf => "\n".into(),
        RF::Nel => "\x1bE".into(),
        RF::Print(c) => c.to_string(),
        RF::Rep(n) => format!("\x1b[{}b", n),
        RF::Ri => "\x1bM".into(),
        RF::Ris => "\x1bc".into(),
        RF::Rm(m) => format!("\x1b[{}l", modes(m)),
        RF::Scorc => "\x1b[u".into(),
        RF::Scosc => "\x1b[s".into(),
        RF::Sd(n) => format!("\x1b[{}T", n),
        RF::Sgr(ops) => {
            // one sequence per op keeps the 32-parameter cap out of the picture
            let mut s = String::new();
            for op in ops {
                let p = match op {
                    RSgr::Reset => "0".to_string(),
                    RSgr::Bold => "1".into(),
                    RSgr::Faint => "2".into(),
                    RSgr::Italic => "3".into(),
                    RSgr::Underline => "4".into(),
                    RSgr::Blink => "5".into(),
                    RSgr::Inverse => "7".into(),
                    RSgr::Strike => "9".into(),
                    RSgr::NoIntensity => "22".into(),
                    RSgr::NoItalic => "23".into(),
                    RSgr::NoUnderline => "24".into(),
                    RSgr::NoBlink => "25".into(),
                    RSgr::NoInverse => "27".into(),
                    RSgr::NoStrike => "29".into(),
                    RSgr::Fg(c) => col(30, c),
                    RSgr::NoFg => "39".into(),
                    RSgr::Bg(c) => col(40, c),
                    RSgr::NoBg => "49".into(),
                    RSgr::Unknown => "0".into(),
                };
                s.push_str(&format!("\x1b[{}m", p));
            }
            s
        }
        RF::Si => "\x0f".into(),
        RF::Sm(m) => format!("\x1b[{}h", modes(m)),
        RF::So => "\x0e".into(),
        RF::Su(n) => format!("\x1b[{}S", n),
        RF::TbcCol => "\x1b[0g".into(),
        RF::TbcAll => "\x1b[3g".into(),
        RF::Vpa(n) => format!("\x1b[{}d", n),
        RF::Vpr(n) => format!("\x1b[{}e", n),
        RF::XtResize(c, r) => format!("\x1b[8;{};{}t", r, c),
        RF::Unknown(_) => String::new(),
    }
}
