//! Concrete event traces: what a run did, fully determined, serialisable. A trace (not a seed) is
//! the replay file; the minimiser edits traces.

use serde_json::{json, Map, Value};

#[derive(Clone, Debug, PartialEq, Eq)]
pub enum Drain {
    All,
    Partial(usize),
    Drop,
}

#[derive(Clone, Debug, PartialEq, Eq)]
pub enum Event {
    /// one `Vt::feed_str` call; `drain` = what the consumer does with `Changes.scrollback`
    FeedStr { s: String, drain: Drain },
    /// `Vt::feed` once per character of `s`
    Feed { s: String },
    /// one `Vt::resize` call
    Resize { cols: usize, rows: usize, drain: Drain },
    /// take a snapshot (`dump()`), restart from it, judge the restart (C11); other checks: call dump()
    Snapshot,
    /// call every read-only accessor
    Observe,
    /// an item the generator claims to be inert (C20), delivered by `feed_str` pieces cut at `cuts`
    Inert { s: String, cuts: Vec<usize> },
}

#[derive(Clone, Debug, PartialEq, Eq)]
pub struct Config {
    pub cols: usize,
    pub rows: usize,
    pub limit: Option<usize>,
}

#[derive(Clone, Debug)]
pub struct Trace {
    pub property: String,
    pub seed: u64,
    pub run: u64,
    pub config: Config,
    /// check-specific parameters (twin configuration etc.)
    pub params: Map<String, Value>,
    pub events: Vec<Event>,
}

impl Trace {
    pub fn new(property: &str, config: Config) -> Self {
        Trace { property: property.to_string(), seed: 0, run: 0, config, params: Map::new(), events: vec![] }
    }

    pub fn param_u64(&self, k: &str) -> Option<u64> {
        self.params.get(k).and_then(|v| v.as_u64())
    }

    pub fn param_str(&self, k: &str) -> Option<&str> {
        self.params.get(k).and_then(|v| v.as_str())
    }

    pub fn chars_fed(&self) -> usize {
        self.events
            .iter()
            .map(|e| match e {
                Event::FeedStr { s, .. } | Event::Feed { s } | Event::Inert { s, .. } => s.chars().count(),
                _ => 0,
            })
            .sum()
    }

    pub fn to_json(&self) -> Value {
        json!({
            "v": 1,
            "property": self.property,
            "seed": self.seed,
            "run": self.run,
            "config": {"cols": self.config.cols, "rows": self.config.rows, "scrollback_limit": self.config.limit},
            "params": Value::Object(self.params.clone()),
            "events": self.events.iter().map(event_to_json).collect::<Vec<_>>(),
        })
    }

    pub fn from_json(v: &Value) -> Result<Trace, String> {
        let property = v.get("property").and_then(|x| x.as_str()).ok_or("property missing")?.to_string();
        let seed = v.get("seed").and_then(|x| x.as_u64()).unwrap_or(0);
        let run = v.get("run").and_then(|x| x.as_u64()).unwrap_or(0);
        let c = v.get("config").ok_or("config missing")?;
        let cols = c.get("cols").and_then(|x| x.as_u64()).ok_or("cols")? as usize;
        let rows = c.get("rows").and_then(|x| x.as_u64()).ok_or("rows")? as usize;
        let limit = c.get("scrollback_limit").and_then(|x| x.as_u64()).map(|x| x as usize);
        let params = v.get("params").and_then(|x| x.as_object()).cloned().unwrap_or_default();
        let mut events = vec![];
        for e in v.get("events").and_then(|x| x.as_array()).ok_or("events missing")? {
            events.push(event_from_json(e)?);
        }
        if cols == 0 || rows == 0 {
            return Err("config size must be >= 1x1".into());
        }
        Ok(Trace { property, seed, run, config: Config { cols, rows, limit }, params, events })
    }
}

fn drain_to_json(d: &Drain) -> Value {
    match d {
        Drain::All => json!("all"),
        Drain::Drop => json!("drop"),
        Drain::Partial(k) => json!({ "partial": k }),
    }
}

fn drain_from_json(v: Option<&Value>) -> Result<Drain, String> {
    match v {
        None => Ok(Drain::All),
        Some(Value::String(s)) if s == "all" => Ok(Drain::All),
        Some(Value::String(s)) if s == "drop" => Ok(Drain::Drop),
        Some(Value::Object(o)) => Ok(Drain::Partial(o.get("partial").and_then(|x| x.as_u64()).ok_or("partial")? as usize)),
        _ => Err("bad drain".into()),
    }
}

pub fn event_to_json(e: &Event) -> Value {
    match e {
        Event::FeedStr { s, drain } => json!({"feed_str": s, "drain": drain_to_json(drain)}),
        Event::Feed { s } => json!({ "feed": s }),
        Event::Resize { cols, rows, drain } => json!({"resize": [cols, rows], "drain": drain_to_json(drain)}),
        Event::Snapshot => json!({"snapshot": true}),
        Event::Observe => json!({"observe": true}),
        Event::Inert { s, cuts } => json!({"inert": s, "cuts": cuts}),
    }
}

pub fn event_from_json(v: &Value) -> Result<Event, String> {
    let o = v.as_object().ok_or("event must be an object")?;
    if let Some(s) = o.get("feed_str") {
        return Ok(Event::FeedStr { s: s.as_str().ok_or("feed_str")?.to_string(), drain: drain_from_json(o.get("drain"))? });
    }
    if let Some(s) = o.get("feed") {
        return Ok(Event::Feed { s: s.as_str().ok_or("feed")?.to_string() });
    }
    if let Some(r) = o.get("resize") {
        let a = r.as_array().ok_or("resize")?;
        let cols = a.first().and_then(|x| x.as_u64()).ok_or("resize cols")? as usize;
        let rows = a.get(1).and_then(|x| x.as_u64()).ok_or("resize rows")? as usize;
        if cols == 0 || rows == 0 {
            return Err("resize to 0".into());
        }
        return Ok(Event::Resize { cols, rows, drain: drain_from_json(o.get("drain"))? });
    }
    if o.contains_key("snapshot") {
        return Ok(Event::Snapshot);
    }
    if o.contains_key("observe") {
        return Ok(Event::Observe);
    }
    if let Some(s) = o.get("inert") {
        let cuts = o
            .get("cuts")
            .and_then(|x| x.as_array())
            .map(|a| a.iter().filter_map(|x| x.as_u64()).map(|x| x as usize).collect())
            .unwrap_or_default();
        return Ok(Event::Inert { s: s.as_str().ok_or("inert")?.to_string(), cuts });
    }
    Err(format!("unknown event {}", v))
}

/// Short human-readable rendering for evidence samples.
pub fn event_brief(e: &Event) -> String {
    match e {
        Event::FeedStr { s, drain } => format!("feed_str({:?}){}", s, match drain { Drain::All => "".to_string(), Drain::Drop => "/drop".to_string(), Drain::Partial(k) => format!("/drain{}", k) }),
        Event::Feed { s } => format!("feed*({:?})", s),
        Event::Resize { cols, rows, .. } => format!("resize({},{})", cols, rows),
        Event::Snapshot => "snapshot".into(),
        Event::Observe => "observe".into(),
        Event::Inert { s, cuts } => format!("inert({:?} cuts {:?})", s, cuts),
    }
}
