//! The executor: a real `avt::Vt` under test, a lock-step real `avt::parser::Parser` (yields the
//! exact `Function` stream without any hook) and the hidden-state tracker; plus the session
//! generator that uses a shadow of the same to place environment events at in-flight moments.

use crate::gen::*;
use crate::model::term::Model;
use crate::obs::build;
use crate::rng::Rng;
use crate::trace::{Config, Drain, Event};
use avt::parser::{Function, Parser, State};
use avt::{Line, Vt};

pub struct Live {
    pub vt: Vt,
    pub parser: Parser,
    pub hid: Model,
    pub cols: usize,
    pub rows: usize,
    pub limit: Option<usize>,
    /// number of `Ris` functions executed so far
    pub ris_count: u64,
}

#[derive(Default)]
pub struct CallReport {
    /// `Changes.lines` of the call (feed_str / resize), None for feed()
    pub lines: Option<Vec<usize>>,
    /// lines the consumer took out of `Changes.scrollback`
    pub drained: Vec<Line>,
    /// whether the iterator was dropped with items left (partial / drop policies)
    pub dropped_nonempty: bool,
    pub funcs: Vec<Function>,
    pub chars: usize,
    pub cut_in_state: Option<State>,
}

/// Payload of a panic raised by the harness' own tracker (never attributed to avt).
pub struct HarnessPanic(pub String);

/// Run harness-side code; a panic in it is re-raised as `HarnessPanic` so that checks which catch
/// avt's panics can tell the two apart (a harness panic is a harness error, exit 2).
pub fn harness<T>(f: impl FnOnce() -> T) -> T {
    match std::panic::catch_unwind(std::panic::AssertUnwindSafe(f)) {
        Ok(v) => v,
        Err(e) => {
            if e.is::<HarnessPanic>() {
                std::panic::resume_unwind(e);
            }
            let msg = crate::runner::panic_message(&e);
            std::panic::panic_any(HarnessPanic(msg));
        }
    }
}

/// Run code that calls into avt; a panic of avt comes back as Err(message), a panic of the harness
/// itself keeps unwinding (and ends as a harness error).
pub fn catch_avt<T>(f: impl FnOnce() -> T) -> Result<T, String> {
    match std::panic::catch_unwind(std::panic::AssertUnwindSafe(f)) {
        Ok(v) => Ok(v),
        Err(e) => {
            if e.is::<HarnessPanic>() {
                std::panic::resume_unwind(e);
            }
            Err(crate::runner::panic_message(&e))
        }
    }
}

fn consume<'a>(it: Box<dyn Iterator<Item = Line> + 'a>, drain: &Drain, rep: &mut CallReport) {
    let mut it = it;
    match drain {
        Drain::All => {
            for l in it {
                rep.drained.push(l);
            }
        }
        Drain::Partial(k) => {
            for _ in 0..*k {
                match it.next() {
                    Some(l) => rep.drained.push(l),
                    None => return,
                }
            }
            // is anything left? peeking consumes one more item: it is recorded as drained
            // so that conservation checks stay exact (they only run with Drain::All anyway)
            if let Some(l) = it.next() {
                rep.drained.push(l);
                rep.dropped_nonempty = true;
            }
        }
        Drain::Drop => {
            drop(it);
        }
    }
}

impl Live {
    pub fn new(cfg: &Config) -> Self {
        Live {
            vt: build(cfg.cols, cfg.rows, cfg.limit),
            parser: Parser::new(),
            hid: Model::new(cfg.cols, cfg.rows, false),
            cols: cfg.cols,
            rows: cfg.rows,
            limit: cfg.limit,
            ris_count: 0,
        }
    }

    pub fn track(&mut self, f: &Function) {
        if matches!(f, Function::Ris) {
            self.ris_count += 1;
        }
        harness(|| {
            self.hid.step(f);
        });
    }

    pub fn resync(&mut self) {
        let (vc, vr) = self.vt.size();
        if (vc, vr) != (self.hid.cols, self.hid.rows) {
            // the terminal changed its size on its own (possible only on a changed tree): follow it
            harness(|| self.hid.resize_hidden(vc, vr));
            self.cols = vc;
            self.rows = vr;
        }
        let c = self.vt.cursor();
        let app = self.vt.cursor_key_app_mode();
        harness(|| self.hid.adopt_cursor(c.col, c.row, c.visible, app));
    }

    /// Execute one event on the terminal under test. Panics of avt propagate (callers catch).
    pub fn apply(&mut self, e: &Event) -> CallReport {
        let mut rep = CallReport::default();
        match e {
            Event::FeedStr { s, drain } => {
                for ch in s.chars() {
                    rep.chars += 1;
                    if let Some(f) = self.parser.feed(ch) {
                        rep.funcs.push(f);
                    }
                }
                {
                    let ch = self.vt.feed_str(s);
                    rep.lines = Some(ch.lines);
                    consume(ch.scrollback, drain, &mut rep);
                }
                for i in 0..rep.funcs.len() {
                    let f = std::mem::replace(&mut rep.funcs[i], Function::Cr);
                    self.track(&f);
                    rep.funcs[i] = f;
                }
                self.resync();
            }
            Event::Feed { s } => {
                for ch in s.chars() {
                    rep.chars += 1;
                    let f = self.parser.feed(ch);
                    self.vt.feed(ch);
                    if let Some(f) = f {
                        self.track(&f);
                        rep.funcs.push(f);
                    }
                    self.resync();
                }
            }
            Event::Inert { s, cuts } => {
                let chars: Vec<char> = s.chars().collect();
                let mut lines_all: Vec<usize> = vec![];
                let mut start = 0;
                let mut bounds: Vec<usize> = cuts.iter().copied().filter(|c| *c > 0 && *c < chars.len()).collect();
                bounds.sort();
                bounds.dedup();
                bounds.push(chars.len());
                if cuts.contains(&0) {
                    // a cut "at 0" selects the per-character entry point: the whole item goes through
                    // Vt::feed(), then an empty feed_str reports the changed lines of that loop
                    for ch in &chars {
                        rep.chars += 1;
                        if let Some(f) = self.parser.feed(*ch) {
                            rep.funcs.push(f);
                        }
                        self.vt.feed(*ch);
                    }
                    let ch = self.vt.feed_str("");
                    lines_all.extend(ch.lines.iter());
                    consume(ch.scrollback, &Drain::All, &mut rep);
                    bounds.clear();
                }
                for b in bounds {
                    let piece: String = chars[start..b].iter().collect();
                    for ch in piece.chars() {
                        rep.chars += 1;
                        if let Some(f) = self.parser.feed(ch) {
                            rep.funcs.push(f);
                        }
                    }
                    let ch = self.vt.feed_str(&piece);
                    lines_all.extend(ch.lines.iter());
                    consume(ch.scrollback, &Drain::All, &mut rep);
                    start = b;
                }
                rep.lines = Some(lines_all);
                for i in 0..rep.funcs.len() {
                    let f = std::mem::replace(&mut rep.funcs[i], Function::Cr);
                    self.track(&f);
                    rep.funcs[i] = f;
                }
                self.resync();
            }
            Event::Resize { cols, rows, drain } => {
                {
                    let ch = self.vt.resize(*cols, *rows);
                    rep.lines = Some(ch.lines);
                    consume(ch.scrollback, drain, &mut rep);
                }
                harness(|| self.hid.resize_hidden(*cols, *rows));
                self.cols = *cols;
                self.rows = *rows;
                self.resync();
            }
            Event::Snapshot | Event::Observe => {}
        }
        rep.cut_in_state = Some(self.parser.state);
        rep
    }

    /// Execute an event without tracking (plain twin): only the real calls.
    pub fn apply_plain(vt: &mut Vt, e: &Event) {
        match e {
            Event::FeedStr { s, drain } => {
                let ch = vt.feed_str(s);
                let mut rep = CallReport::default();
                consume(ch.scrollback, drain, &mut rep);
            }
            Event::Feed { s } => {
                for ch in s.chars() {
                    vt.feed(ch);
                }
            }
            Event::Inert { s, cuts } => {
                if cuts.contains(&0) {
                    for ch in s.chars() {
                        vt.feed(ch);
                    }
                } else {
                    vt.feed_str(s);
                }
            }
            Event::Resize { cols, rows, drain } => {
                let ch = vt.resize(*cols, *rows);
                let mut rep = CallReport::default();
                consume(ch.scrollback, drain, &mut rep);
            }
            Event::Snapshot | Event::Observe => {}
        }
    }
}

/// Fork by replay: a fresh terminal brought to the state after `events` (Vt is not Clone).
pub fn replay_plain(cfg: &Config, events: &[Event]) -> Vt {
    let mut vt = build(cfg.cols, cfg.rows, cfg.limit);
    for e in events {
        Live::apply_plain(&mut vt, e);
    }
    vt
}

/// Call every read-only accessor of the public API (the Observer actor).
pub fn observe_all(vt: &Vt) -> u64 {
    let mut acc = 0u64;
    let (cols, rows) = vt.size();
    acc = acc.wrapping_add(cols as u64 + rows as u64);
    let c = vt.cursor();
    acc = acc.wrapping_add(c.col as u64 + c.row as u64 + c.visible as u64);
    let _: Option<(usize, usize)> = c.into();
    acc = acc.wrapping_add(vt.cursor_key_app_mode() as u64);
    acc = acc.wrapping_add(vt.dump().len() as u64);
    for t in vt.text() {
        acc = acc.wrapping_add(t.len() as u64);
    }
    for l in vt.lines() {
        acc = acc.wrapping_add(l.len() as u64 + l.is_empty() as u64);
    }
    for (i, l) in vt.view().iter().enumerate() {
        if i < rows {
            let same = vt.line(i) == l;
            acc = acc.wrapping_add(same as u64);
        }
        acc = acc.wrapping_add(l.text().len() as u64);
        acc = acc.wrapping_add(l.chars().count() as u64);
        for ch in l.chunks(|a, b| a.pen() != b.pen()) {
            acc = acc.wrapping_add(ch.len() as u64);
        }
        for cell in l.cells() {
            acc = acc.wrapping_add(cell.width() as u64 + cell.is_default() as u64 + cell.char() as u64);
            let p = cell.pen();
            acc = acc.wrapping_add(p.is_bold() as u64 + p.is_default() as u64);
        }
        let _ = format!("{:?}", l);
    }
    acc
}

// ---------------------------------------------------------------------------------------------
// session generator

pub struct SessionOpts {
    pub profile: Profile,
    pub max_cols: usize,
    pub max_rows: usize,
}

/// Counters the generator reports (which environment events were actually placed where).
#[derive(Default, Clone, Debug)]
pub struct GenStats {
    pub tokens: u64,
    pub resizes: u64,
    pub resize_pending: u64,
    pub resize_mid_seq: u64,
    pub resize_alt: u64,
    pub snapshots: u64,
    pub snapshot_mid_seq: u64,
    pub damage: u64,
    pub intra_token_events: u64,
    pub giant_resizes: u64,
}

/// CPU time consumed by the calling thread, in nanoseconds (not wall-clock: being descheduled on a
/// loaded machine does not count).
pub fn thread_cpu_ns() -> u64 {
    let mut ts = libc::timespec { tv_sec: 0, tv_nsec: 0 };
    // SAFETY: plain syscall wrapper writing into a local timespec
    unsafe {
        libc::clock_gettime(libc::CLOCK_THREAD_CPUTIME_ID, &mut ts);
    }
    ts.tv_sec as u64 * 1_000_000_000 + ts.tv_nsec as u64
}

/// Generate the atoms of one session. `atoms` is filled incrementally so that a panic of the
/// shadow terminal (possible only on a defective tree) still leaves the history that caused it.
thread_local! {
    /// Where the generator publishes the history it has produced so far (configuration + atoms),
    /// so that the watchdog can still report a trace when the *shadow* terminal never returns.
    pub static GEN_LOG: std::cell::RefCell<Option<std::sync::Arc<std::sync::Mutex<(Option<Config>, Vec<Atom>)>>>> = std::cell::RefCell::new(None);
}

fn log_atom(a: &Atom) {
    GEN_LOG.with(|g| {
        if let Some(l) = g.borrow().as_ref() {
            l.lock().unwrap().1.push(a.clone());
        }
    });
}

/// The events of a generation log, with the simplest schedule (one feed_str per run of characters).
pub fn events_of_log(atoms: &[Atom]) -> Vec<Event> {
    let mut out = vec![];
    let mut cur = String::new();
    for a in atoms {
        match a {
            Atom::Ch(c, _) => cur.push(*c),
            Atom::Ev(e) => {
                if !cur.is_empty() {
                    out.push(Event::FeedStr { s: std::mem::take(&mut cur), drain: Drain::All });
                }
                out.push(e.clone());
            }
        }
    }
    if !cur.is_empty() {
        out.push(Event::FeedStr { s: cur, drain: Drain::All });
    }
    out
}

pub fn gen_session(r: &mut Rng, cfg: &Config, o: &SessionOpts, atoms: &mut Vec<Atom>, gs: &mut GenStats) {
    GEN_LOG.with(|g| {
        if let Some(l) = g.borrow().as_ref() {
            let mut l = l.lock().unwrap();
            if l.0.is_none() {
                l.0 = Some(cfg.clone());
            }
        }
    });
    let p = &o.profile;
    let mut shadow = build(cfg.cols, cfg.rows, cfg.limit);
    let mut sparser = Parser::new();
    let mut alt = false;
    let (mut cols, mut rows) = (cfg.cols, cfg.rows);
    // gigantic screens: a resize would re-wrap millions of cells into millions of rows (legitimate
    // work, but minutes of it) - keep their geometry fixed and their sessions short
    let gigantic = cfg.cols * cfg.rows > 20_000;
    let ntok = if gigantic { r.range(p.min_tokens.min(12), p.max_tokens.min(12)) } else { r.range(p.min_tokens, p.max_tokens) };

    // number of lines of the primary buffer while it is parked behind the alternate screen (it is
    // re-wrapped to the current width when the terminal returns to it)
    let parked = std::cell::Cell::new(0usize);
    let feed_shadow = |shadow: &mut Vt, sparser: &mut Parser, alt: &mut bool, s: &str| {
        for ch in s.chars() {
            if let Some(f) = sparser.feed(ch) {
                match &f {
                    Function::Decset(ms) => {
                        for m in ms {
                            if matches!(m, avt::parser::DecMode::AltScreenBuffer | avt::parser::DecMode::SaveCursorAltScreenBuffer) {
                                if !*alt {
                                    parked.set(shadow.lines().len());
                                }
                                *alt = true;
                            }
                        }
                    }
                    Function::Decrst(ms) => {
                        for m in ms {
                            if matches!(m, avt::parser::DecMode::AltScreenBuffer | avt::parser::DecMode::SaveCursorAltScreenBuffer) {
                                *alt = false;
                            }
                        }
                    }
                    Function::Ris => *alt = false,
                    _ => {}
                }
            }
            shadow.feed(ch);
        }
    };

    let mut visit_cost = 0u64;
    for _ in 0..ntok {
        // cost bound: a session ends once the terminal holds more than 8 M cells (~100 MB) - only
        // reachable after a resize to a very wide geometry followed by scrolling
        if p.giant_resizes && (shadow.lines().len() * cols > 8_000_000 || visit_cost > 1_500_000_000) {
            break;
        }
        gs.tokens += 1;
        let (_fam, mut tok) = gen_token(r, cols, rows, p);
        // a check that looks at every cell after every call pays characters x cells
        visit_cost += tok.len() as u64 * (shadow.lines().len() * cols) as u64;
        if p.giant_resizes && visit_cost > 1_500_000_000 {
            break;
        }
        if p.damage_pm > 0 && r.below(1000) < p.damage_pm as u64 {
            let (t, _kind) = damage(r, &tok);
            tok = t;
            gs.damage += 1;
        }
        // environment events: before the token, or inside it
        let pending = shadow.cursor().col >= cols;
        let inflight = pending || alt || sparser.state != State::Ground;
        let boost = if inflight { p.boost.max(1) as u64 } else { 1 };
        let mut evs: Vec<Event> = vec![];
        if (!gigantic || p.giant_resizes) && p.resize_pm > 0 && r.below(1000) < p.resize_pm as u64 * boost {
            let mut target = gen_resize(r, cols, rows, o.max_cols, o.max_rows);
            let held = shadow.lines().len().max(if alt { parked.get() } else { 0 });
            if p.giant_resizes && r.chance(1, if cols * rows > 20_000 { 2 } else { 80 }) {
                // legitimate cost of a resize ~ (rows kept + rows of the screen) x new width: keep it
                // below a few million cells so that a run stays in the millisecond range
                let g = giant_resize_target(r);
                // (and not in front of a burst generated for the old, small geometry)
                if (held + g.1) * g.0 <= 4_000_000 && tok.len() <= 400 {
                    target = g;
                    gs.giant_resizes += 1;
                }
            }
            // leaving a gigantic geometry: only towards small screens (an ordinary target may be 512 wide)
            if (held + target.1) * target.0 <= 4_000_000 {
                evs.push(Event::Resize { cols: target.0, rows: target.1, drain: Drain::All });
            }
        }
        if p.snapshot_pm > 0 && r.below(1000) < p.snapshot_pm as u64 * boost {
            evs.push(Event::Snapshot);
        }
        if p.observe_pm > 0 && r.below(1000) < p.observe_pm as u64 {
            evs.push(Event::Observe);
        }
        let chars: Vec<char> = tok.chars().collect();
        let split = if !evs.is_empty() && chars.len() > 1 && r.below(100) < p.intra_pct as u64 { 1 + r.usize_below(chars.len() - 1) } else { 0 };
        if split > 0 {
            gs.intra_token_events += evs.len() as u64;
        }
        let first: String = chars[..split].iter().collect();
        for (i, ch) in first.chars().enumerate() {
            log_atom(&Atom::Ch(ch, i > 0));
            atoms.push(Atom::Ch(ch, i > 0));
        }
        feed_shadow(&mut shadow, &mut sparser, &mut alt, &first);
        for e in evs {
            match &e {
                Event::Resize { cols: c, rows: rw, .. } => {
                    gs.resizes += 1;
                    if shadow.cursor().col >= cols {
                        gs.resize_pending += 1;
                    }
                    if sparser.state != State::Ground {
                        gs.resize_mid_seq += 1;
                    }
                    if alt {
                        gs.resize_alt += 1;
                    }
                    log_atom(&Atom::Ev(e.clone()));
                    atoms.push(Atom::Ev(e.clone()));
                    shadow.resize(*c, *rw);
                    cols = *c;
                    rows = *rw;
                }
                Event::Snapshot => {
                    gs.snapshots += 1;
                    if sparser.state != State::Ground {
                        gs.snapshot_mid_seq += 1;
                    }
                    log_atom(&Atom::Ev(e.clone()));
                    atoms.push(Atom::Ev(e.clone()));
                }
                _ => {
                    log_atom(&Atom::Ev(e.clone()));
                    atoms.push(Atom::Ev(e.clone()))
                }
            }
        }
        let second: String = chars[split..].iter().collect();
        for (i, ch) in second.chars().enumerate() {
            log_atom(&Atom::Ch(ch, split > 0 || i > 0));
            atoms.push(Atom::Ch(ch, split > 0 || i > 0));
        }
        feed_shadow(&mut shadow, &mut sparser, &mut alt, &second);
    }
}

/// Generate a session and pipe it into events; robust against a panicking shadow.
pub fn gen_events(r: &mut Rng, cfg: &Config, o: &SessionOpts, policy: CutPolicy, dp: DrainPolicy, gs: &mut GenStats) -> Vec<Event> {
    let mut atoms: Vec<Atom> = vec![];
    {
        let atoms_ref = &mut atoms;
        let gs_ref = &mut *gs;
        let r_ref = &mut *r;
        let _ = std::panic::catch_unwind(std::panic::AssertUnwindSafe(move || {
            gen_session(r_ref, cfg, o, atoms_ref, gs_ref);
        }));
    }
    let mut evs = pipe(r, &atoms, policy, dp);
    // resize events keep Drain::All unless the consumer policy says otherwise
    if dp != DrainPolicy::AlwaysAll {
        for e in evs.iter_mut() {
            if let Event::Resize { drain, .. } = e {
                *drain = gen_drain(r, dp);
            }
        }
    }
    evs
}

/// `gen_events` with the cut policy drawn from the run's PRNG first.
pub fn gen_events_anycut(r: &mut Rng, cfg: &Config, o: &SessionOpts, dp: DrainPolicy, gs: &mut GenStats) -> Vec<Event> {
    let policy = *r.pick(&CUT_POLICIES);
    gen_events(r, cfg, o, policy, dp, gs)
}
