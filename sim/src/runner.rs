//! Runs a check: corpus, known findings, seeded exploration on all cores, minimisation, replay
//! verification in a fresh process, evidence.

use crate::rng::{fnv1a, run_seed, Rng};
use crate::trace::{event_brief, Event, Trace};
use serde_json::{json, Value};
use std::collections::{BTreeMap, BTreeSet};
use std::path::{Path, PathBuf};
use std::sync::atomic::{AtomicBool, AtomicU64, Ordering};
use std::sync::Mutex;
use std::time::Instant;

#[derive(Clone, Copy, PartialEq, Eq, Debug)]
pub enum Tier {
    Quick,
    Thorough,
}

impl Tier {
    pub fn name(&self) -> &'static str {
        match self {
            Tier::Quick => "quick",
            Tier::Thorough => "thorough",
        }
    }
}

#[derive(Clone, Debug)]
pub enum Verdict {
    Pass { digest: u64, nontrivial: bool },
    /// the run does not exercise the property (precondition unmet, symmetric panic, ...)
    Skip,
    /// a violation that falls under an open known finding (matcher named)
    Known { finding: String },
    Violation { rule: String, detail: String },
}

#[derive(Default, Clone, Debug)]
pub struct Stats(pub BTreeMap<&'static str, u64>, pub Strata);

/// set of reach-probe strata hit (hashed keys)
#[derive(Default, Clone, Debug)]
pub struct Strata(pub BTreeSet<u64>);
impl Strata {
    pub fn insert(&mut self, k: u64) {
        self.0.insert(k);
    }
}

impl Stats {
    pub fn bump(&mut self, k: &'static str) {
        *self.0.entry(k).or_insert(0) += 1;
    }
    pub fn add(&mut self, k: &'static str, n: u64) {
        *self.0.entry(k).or_insert(0) += n;
    }
    pub fn merge(&mut self, o: &Stats) {
        for (k, v) in &o.0 {
            *self.0.entry(k).or_insert(0) += v;
        }
        self.1 .0.extend(o.1 .0.iter());
    }
    pub fn get(&self, k: &str) -> u64 {
        self.0.get(k).copied().unwrap_or(0)
    }
}

pub struct Ctx {
    pub tier: Tier,
    /// matchers of the open known findings of this property
    pub open_matchers: BTreeSet<String>,
}

pub struct Meta {
    pub rule: &'static str,
    pub assumptions: Vec<&'static str>,
    pub real: Vec<&'static str>,
    pub simulated: Vec<&'static str>,
    pub model: Vec<&'static str>,
    /// reach probes that must be non-zero in the thorough tier
    pub probes: Vec<&'static str>,
    pub fault_kinds: Vec<&'static str>,
}

pub trait Check: Sync {
    fn id(&self) -> &'static str;
    fn runs(&self, tier: Tier) -> u64;
    fn generate(&self, r: &mut Rng, tier: Tier, st: &mut Stats) -> Trace;
    fn execute(&self, t: &Trace, st: &mut Stats, ctx: &Ctx) -> Verdict;
    fn meta(&self) -> Meta;
    /// optional additional deterministic phase (e.g. exhaustive single-step table); returns a
    /// violation (rule, detail, trace) or extra evidence
    fn extra_phase(&self, _tier: Tier, _st: &mut Stats) -> Result<Value, (String, String, Trace)> {
        Ok(Value::Null)
    }
}

pub fn verif_root() -> PathBuf {
    if let Ok(p) = std::env::var("VERIF_ROOT") {
        return PathBuf::from(p);
    }
    // binary lives in <root>/sim/target/release/
    let exe = std::env::current_exe().unwrap_or_default();
    let mut p = exe.clone();
    for _ in 0..4 {
        p.pop();
    }
    if p.join("properties.jsonl").exists() {
        return p;
    }
    PathBuf::from("/verif")
}

#[derive(Clone, Debug)]
pub struct Finding {
    pub id: String,
    pub property: String,
    pub status: String,
    pub matcher: String,
    pub what: String,
    pub witness: Option<Trace>,
}

pub fn load_findings(root: &Path, prop: &str) -> Result<Vec<Finding>, String> {
    let p = root.join("known_findings.json");
    if !p.exists() {
        return Ok(vec![]);
    }
    let txt = std::fs::read_to_string(&p).map_err(|e| e.to_string())?;
    let v: Value = serde_json::from_str(&txt).map_err(|e| format!("known_findings.json: {}", e))?;
    let mut out = vec![];
    for f in v.get("findings").and_then(|x| x.as_array()).cloned().unwrap_or_default() {
        let property = f.get("property").and_then(|x| x.as_str()).unwrap_or("").to_string();
        if property != prop {
            continue;
        }
        let witness = match f.get("witness") {
            Some(w) if w.is_object() => Some(Trace::from_json(w)?),
            _ => None,
        };
        out.push(Finding {
            id: f.get("id").and_then(|x| x.as_str()).unwrap_or("").to_string(),
            property,
            status: f.get("status").and_then(|x| x.as_str()).unwrap_or("").to_string(),
            matcher: f.get("matcher").and_then(|x| x.as_str()).unwrap_or("").to_string(),
            what: f.get("what").and_then(|x| x.as_str()).unwrap_or("").to_string(),
            witness,
        });
    }
    Ok(out)
}

pub fn make_ctx(root: &Path, prop: &str, tier: Tier) -> Result<(Ctx, Vec<Finding>), String> {
    let findings = load_findings(root, prop)?;
    let open_matchers = findings.iter().filter(|f| f.status == "open").map(|f| f.matcher.clone()).collect();
    Ok((Ctx { tier, open_matchers }, findings))
}

/// Execute with panics of the harness itself turned into harness errors (avt panics are caught
/// inside the checks where they are meaningful).
fn exec_guarded(check: &dyn Check, t: &Trace, st: &mut Stats, ctx: &Ctx) -> Result<Verdict, String> {
    match std::panic::catch_unwind(std::panic::AssertUnwindSafe(|| check.execute(t, st, ctx))) {
        Ok(v) => Ok(v),
        Err(e) => Err(panic_message(&e)),
    }
}

pub fn silence_panics() {
    if std::env::var("VERIF_PANIC_TRACE").is_ok() {
        return;
    }
    std::panic::set_hook(Box::new(|_| {}));
}

pub fn panic_message(e: &Box<dyn std::any::Any + Send>) -> String {
    if let Some(h) = e.downcast_ref::<crate::sim::HarnessPanic>() {
        return format!("harness-side panic: {}", h.0);
    }
    if let Some(s) = e.downcast_ref::<String>() {
        s.clone()
    } else if let Some(s) = e.downcast_ref::<&str>() {
        s.to_string()
    } else {
        "panic".to_string()
    }
}

// ---------------------------------------------------------------------------------------------
// minimiser

fn same_violation(check: &dyn Check, t: &Trace, ctx: &Ctx, rule: &str) -> bool {
    let mut st = Stats::default();
    matches!(exec_guarded(check, t, &mut st, ctx), Ok(Verdict::Violation { rule: r, .. }) if r == rule)
}

fn shrink_string(s: &str, keep: &mut dyn FnMut(&str) -> bool, exhausted: &std::cell::Cell<bool>) -> String {
    let mut cs: Vec<char> = s.chars().collect();
    let mut chunk = (cs.len() / 2).max(1);
    loop {
        let mut i = 0;
        let mut progressed = false;
        while i < cs.len() {
            if exhausted.get() {
                // budget used up: every further candidate would be refused unseen
                return cs.into_iter().collect();
            }
            let end = (i + chunk).min(cs.len());
            let mut cand = cs.clone();
            cand.drain(i..end);
            let cs_str: String = cand.iter().collect();
            if keep(&cs_str) {
                cs = cand;
                progressed = true;
            } else {
                i = end;
            }
        }
        if chunk == 1 && !progressed {
            break;
        }
        if !progressed {
            chunk = (chunk / 2).max(1);
        }
    }
    cs.into_iter().collect()
}

pub fn minimise(check: &dyn Check, t: &Trace, ctx: &Ctx, rule: &str, budget: usize) -> Trace {
    let mut best = t.clone();
    let mut attempts = 0usize;
    // besides the attempt budget a wall-clock budget: a single execution of a long trace (line-feed
    // bursts, gigantic screens) can take seconds. The minimised trace is verified by a fresh-process
    // replay anyway, so stopping early only means a longer replay file.
    let started = Instant::now();
    let exhausted = std::cell::Cell::new(false);
    let mut try_cand = |cand: &Trace, attempts: &mut usize| -> bool {
        if *attempts >= budget || started.elapsed().as_secs() >= 45 {
            exhausted.set(true);
            return false;
        }
        *attempts += 1;
        same_violation(check, cand, ctx, rule)
    };
    // 1. ddmin over events
    let mut chunk = (best.events.len() / 2).max(1);
    loop {
        let mut i = 0;
        let mut progressed = false;
        while i < best.events.len() {
            let end = (i + chunk).min(best.events.len());
            let mut cand = best.clone();
            cand.events.drain(i..end);
            if try_cand(&cand, &mut attempts) {
                best = cand;
                progressed = true;
            } else {
                i = end;
            }
        }
        if chunk == 1 && !progressed {
            break;
        }
        if !progressed {
            chunk = (chunk / 2).max(1);
        }
        if attempts >= budget || exhausted.get() {
            break;
        }
    }
    // 2. shrink strings inside feed events
    for idx in 0..best.events.len() {
        let (s0, kind) = match &best.events[idx] {
            Event::FeedStr { s, .. } => (s.clone(), 0),
            Event::Feed { s } => (s.clone(), 1),
            _ => continue,
        };
        let base = best.clone();
        let mut keep = |cand_s: &str| -> bool {
            let mut cand = base.clone();
            match &mut cand.events[idx] {
                Event::FeedStr { s, .. } | Event::Feed { s } => *s = cand_s.to_string(),
                _ => {}
            }
            try_cand(&cand, &mut attempts)
        };
        let s1 = shrink_string(&s0, &mut keep, &exhausted);
        let _ = kind;
        match &mut best.events[idx] {
            Event::FeedStr { s, .. } | Event::Feed { s } => *s = s1,
            _ => {}
        }
    }
    {
        // drop feed events that became empty - only if the violation survives that too
        let mut cand = best.clone();
        cand.events.retain(|e| !matches!(e, Event::FeedStr { s, .. } | Event::Feed { s } if s.is_empty()));
        if cand.events.len() != best.events.len() && try_cand(&cand, &mut attempts) {
            best = cand;
        }
    }
    // 3. simpler schedules: feed loop -> feed_str, partial drain -> all; merge adjacent feed_str
    for idx in 0..best.events.len() {
        let mut cand = best.clone();
        let changed = match &cand.events[idx] {
            Event::Feed { s } => {
                cand.events[idx] = Event::FeedStr { s: s.clone(), drain: crate::trace::Drain::All };
                true
            }
            Event::FeedStr { s, drain } if *drain != crate::trace::Drain::All => {
                cand.events[idx] = Event::FeedStr { s: s.clone(), drain: crate::trace::Drain::All };
                true
            }
            _ => false,
        };
        if changed && try_cand(&cand, &mut attempts) {
            best = cand;
        }
    }
    let mut idx = 0;
    while idx + 1 < best.events.len() {
        if let (Event::FeedStr { s: a, drain: da }, Event::FeedStr { s: b, .. }) = (&best.events[idx], &best.events[idx + 1]) {
            let mut cand = best.clone();
            cand.events[idx] = Event::FeedStr { s: format!("{}{}", a, b), drain: da.clone() };
            cand.events.remove(idx + 1);
            if try_cand(&cand, &mut attempts) {
                best = cand;
                continue;
            }
        }
        idx += 1;
    }
    // 4. numbers: sizes towards small, limit towards None / 0
    let shrink_num = |v: usize| -> Vec<usize> {
        let mut c = vec![];
        if v > 1 {
            c.push(1);
            c.push(v / 2);
            c.push(v - 1);
        }
        c
    };
    for _round in 0..3 {
        for c in shrink_num(best.config.cols) {
            let mut cand = best.clone();
            cand.config.cols = c.max(1);
            if try_cand(&cand, &mut attempts) {
                best = cand;
                break;
            }
        }
        for c in shrink_num(best.config.rows) {
            let mut cand = best.clone();
            cand.config.rows = c.max(1);
            if try_cand(&cand, &mut attempts) {
                best = cand;
                break;
            }
        }
        for idx in 0..best.events.len() {
            if let Event::Resize { cols, rows, drain } = best.events[idx].clone() {
                for c in shrink_num(cols) {
                    let mut cand = best.clone();
                    cand.events[idx] = Event::Resize { cols: c.max(1), rows, drain: drain.clone() };
                    if try_cand(&cand, &mut attempts) {
                        best = cand;
                        break;
                    }
                }
                if let Event::Resize { cols, rows, drain } = best.events[idx].clone() {
                    for c in shrink_num(rows) {
                        let mut cand = best.clone();
                        cand.events[idx] = Event::Resize { cols, rows: c.max(1), drain: drain.clone() };
                        if try_cand(&cand, &mut attempts) {
                            best = cand;
                            break;
                        }
                    }
                }
            }
        }
    }
    if best.config.limit.is_some() {
        for l in [None, Some(0usize)] {
            if best.config.limit == l {
                continue;
            }
            let mut cand = best.clone();
            cand.config.limit = l;
            if try_cand(&cand, &mut attempts) {
                best = cand;
                break;
            }
        }
    }
    best
}

// ---------------------------------------------------------------------------------------------

pub fn write_replay(root: &Path, t: &Trace, rule: &str, detail: &str, name: &str) -> PathBuf {
    let dir = root.join("replays").join(&t.property);
    let _ = std::fs::create_dir_all(&dir);
    let path = dir.join(name);
    let mut v = t.to_json();
    v.as_object_mut().unwrap().insert("violation".into(), json!({"rule": rule, "detail": detail}));
    let _ = std::fs::write(&path, serde_json::to_string_pretty(&v).unwrap());
    path
}

/// Replay a file in this process; prints the verdict. Returns the exit code.
pub fn replay_file(check: &dyn Check, root: &Path, path: &Path) -> i32 {
    let txt = match std::fs::read_to_string(path) {
        Ok(t) => t,
        Err(e) => {
            eprintln!("HARNESS-ERROR: cannot read {}: {}", path.display(), e);
            return 2;
        }
    };
    let v: Value = match serde_json::from_str(&txt) {
        Ok(v) => v,
        Err(e) => {
            eprintln!("HARNESS-ERROR: {}: {}", path.display(), e);
            return 2;
        }
    };
    let t = match Trace::from_json(&v) {
        Ok(t) => t,
        Err(e) => {
            eprintln!("HARNESS-ERROR: {}: {}", path.display(), e);
            return 2;
        }
    };
    let (ctx, _) = match make_ctx(root, check.id(), Tier::Quick) {
        Ok(x) => x,
        Err(e) => {
            eprintln!("HARNESS-ERROR: {}", e);
            return 2;
        }
    };
    let mut st = Stats::default();
    match exec_with_watchdog(check, &t, &mut st, &ctx) {
        Ok(Verdict::Violation { rule, detail }) => {
            println!("VIOLATION property={} replay={} rule={} detail={}", check.id(), path.display(), rule, detail);
            1
        }
        Ok(Verdict::Known { finding }) => {
            println!("KNOWN-FINDING: property={} matcher={} (replay {})", check.id(), finding, path.display());
            0
        }
        Ok(v) => {
            println!("REPLAY-OK property={} verdict={:?}", check.id(), v);
            0
        }
        Err(e) => {
            eprintln!("HARNESS-ERROR: harness panicked during replay: {}", e);
            2
        }
    }
}

pub const HANG_LIMIT_S_DEFAULT: u64 = 120;

/// hang limit in seconds (VERIF_HANG_LIMIT_S overrides the default of 60; used by the self-tests)
pub fn hang_limit_s() -> u64 {
    std::env::var("VERIF_HANG_LIMIT_S").ok().and_then(|s| s.parse().ok()).unwrap_or(HANG_LIMIT_S_DEFAULT)
}

/// Execute in a helper thread so that a call that never returns is reported instead of hanging
/// the replay (C01). The helper thread is leaked on a hang; the process exits soon after.
fn exec_with_watchdog(check: &dyn Check, t: &Trace, st: &mut Stats, ctx: &Ctx) -> Result<Verdict, String> {
    let done = AtomicBool::new(false);
    let result: Mutex<Option<(Result<Verdict, String>, Stats)>> = Mutex::new(None);
    let start = Instant::now();
    let mut out: Option<Result<Verdict, String>> = None;
    std::thread::scope(|s| {
        s.spawn(|| {
            let mut local = Stats::default();
            let r = exec_guarded(check, t, &mut local, ctx);
            *result.lock().unwrap() = Some((r, local));
            done.store(true, Ordering::SeqCst);
        });
        loop {
            if done.load(Ordering::SeqCst) {
                break;
            }
            if start.elapsed().as_secs() >= hang_limit_s() {
                println!(
                    "VIOLATION property={} replay=<given> rule=hang detail=an event did not return within {}s",
                    check.id(),
                    hang_limit_s()
                );
                std::process::exit(if check.id() == "C01" { 1 } else { 2 });
            }
            std::thread::sleep(std::time::Duration::from_millis(2));
        }
    });
    if let Some((r, local)) = result.lock().unwrap().take() {
        st.merge(&local);
        out = Some(r);
    }
    out.unwrap_or(Err("no result".into()))
}

struct Slot {
    run: u64,
    started_ms: u64,
    trace: Option<Trace>,
    gen_log: std::sync::Arc<Mutex<(Option<crate::trace::Config>, Vec<crate::gen::Atom>)>>,
}

pub fn default_workers() -> usize {
    if let Ok(v) = std::env::var("VERIF_WORKERS") {
        if let Ok(n) = v.parse::<usize>() {
            return n.max(1);
        }
    }
    std::thread::available_parallelism().map(|n| n.get()).unwrap_or(4)
}

pub fn sample_of(t: &Trace) -> Value {
    let evs: Vec<String> = t.events.iter().take(12).map(event_brief).collect();
    json!({
        "run": t.run,
        "config": format!("{}x{} limit={:?}", t.config.cols, t.config.rows, t.config.limit),
        "params": Value::Object(t.params.clone()),
        "events": evs,
        "events_total": t.events.len(),
    })
}

/// The main entry: returns the process exit code.
pub fn run_check(check: &dyn Check, tier: Tier, seed: u64, runs_override: Option<u64>) -> i32 {
    let root = verif_root();
    let id = check.id();
    let t0 = Instant::now();
    let (ctx, findings) = match make_ctx(&root, id, tier) {
        Ok(x) => x,
        Err(e) => {
            eprintln!("HARNESS-ERROR: {}", e);
            return 2;
        }
    };
    let mut total = Stats::default();
    let mut violations = 0u64;

    // 1. regression corpus (directed traces and witnesses of fixed findings): plain violations
    let cdir = root.join("corpus").join(id);
    let mut corpus_files: Vec<PathBuf> = std::fs::read_dir(&cdir).map(|d| d.filter_map(|e| e.ok()).map(|e| e.path()).filter(|p| p.extension().map(|x| x == "json").unwrap_or(false)).collect()).unwrap_or_default();
    corpus_files.sort();
    let mut corpus_run = 0u64;
    for f in &corpus_files {
        let txt = std::fs::read_to_string(f).unwrap_or_default();
        let t = match serde_json::from_str::<Value>(&txt).map_err(|e| e.to_string()).and_then(|v| Trace::from_json(&v)) {
            Ok(t) => t,
            Err(e) => {
                eprintln!("HARNESS-ERROR: corpus file {}: {}", f.display(), e);
                return 2;
            }
        };
        corpus_run += 1;
        match exec_guarded(check, &t, &mut total, &ctx) {
            Ok(Verdict::Violation { rule, detail }) => {
                println!("VIOLATION property={} replay={} rule={} detail={}", id, f.display(), rule, detail);
                violations += 1;
            }
            Ok(_) => {}
            Err(e) => {
                eprintln!("HARNESS-ERROR: harness panicked on corpus file {}: {}", f.display(), e);
                return 2;
            }
        }
    }

    // 2. open known findings: replay each witness; report while it still fails
    let mut known_lines = vec![];
    for f in findings.iter().filter(|f| f.status == "open") {
        if let Some(w) = &f.witness {
            let mut st = Stats::default();
            match exec_guarded(check, w, &mut st, &ctx) {
                Ok(Verdict::Known { .. }) | Ok(Verdict::Violation { .. }) => {
                    let line = format!("KNOWN-FINDING: property={} {} [{}]", id, f.what, f.id);
                    println!("{}", line);
                    known_lines.push(line);
                }
                Ok(_) => {}
                Err(e) => {
                    eprintln!("HARNESS-ERROR: harness panicked on witness of {}: {}", f.id, e);
                    return 2;
                }
            }
        }
    }

    // 3. optional deterministic extra phase
    let extra = match check.extra_phase(tier, &mut total) {
        Ok(v) => v,
        Err((rule, detail, trace)) => {
            let path = write_replay(&root, &trace, &rule, &detail, &format!("{}-extra.json", seed));
            println!("VIOLATION property={} replay={} rule={} detail={}", id, path.display(), rule, detail);
            violations += 1;
            Value::Null
        }
    };

    // 4. seeded exploration
    let n_runs = runs_override.unwrap_or_else(|| check.runs(tier));
    let workers = default_workers();
    let next = AtomicU64::new(0);
    let min_fail = AtomicU64::new(u64::MAX);
    let hang = AtomicBool::new(false);
    let finished = AtomicBool::new(false);
    let slots: Vec<Mutex<Slot>> = (0..workers).map(|_| Mutex::new(Slot { run: u64::MAX, started_ms: 0, trace: None, gen_log: std::sync::Arc::new(Mutex::new((None, vec![]))) })).collect();
    struct WorkerOut {
        stats: Stats,
        digests: Vec<u64>,
        trace_digest: u64,
        evaluations: u64,
        skipped: u64,
        known: BTreeMap<String, u64>,
        fail: Option<(u64, String, String)>,
        harness_err: Option<String>,
        steps_events: u64,
        steps_chars: u64,
        slowest: (u64, u64),
    }
    let outs: Mutex<Vec<WorkerOut>> = Mutex::new(vec![]);
    const CHUNK: u64 = 64;

    std::thread::scope(|s| {
        for w in 0..workers {
            let slots = &slots;
            let next = &next;
            let min_fail = &min_fail;
            let outs = &outs;
            let ctx = &ctx;
            let hang = &hang;
            s.spawn(move || {
                {
                    let log = slots[w].lock().unwrap().gen_log.clone();
                    crate::sim::GEN_LOG.with(|g| *g.borrow_mut() = Some(log));
                }
                let mut o = WorkerOut {
                    stats: Stats::default(),
                    digests: vec![],
                    trace_digest: 0,
                    evaluations: 0,
                    skipped: 0,
                    known: BTreeMap::new(),
                    fail: None,
                    harness_err: None,
                    steps_events: 0,
                    steps_chars: 0,
                    slowest: (0, 0),
                };
                'outer: loop {
                    let base = next.fetch_add(CHUNK, Ordering::SeqCst);
                    if base >= n_runs || hang.load(Ordering::SeqCst) {
                        break;
                    }
                    for run in base..(base + CHUNK).min(n_runs) {
                        if run > min_fail.load(Ordering::SeqCst) {
                            break 'outer;
                        }
                        let mut r = Rng::new(run_seed(seed, id, run));
                        let run_started = Instant::now();
                        {
                            let mut sl = slots[w].lock().unwrap();
                            sl.run = run;
                            sl.started_ms = t0.elapsed().as_millis() as u64;
                            sl.trace = None;
                            let mut gl = sl.gen_log.lock().unwrap();
                            gl.0 = None;
                            gl.1.clear();
                        }
                        let mut t = check.generate(&mut r, tier, &mut o.stats);
                        t.seed = seed;
                        t.run = run;
                        o.steps_events += t.events.len() as u64;
                        o.steps_chars += t.chars_fed() as u64;
                        {
                            let mut sl = slots[w].lock().unwrap();
                            sl.trace = Some(t.clone());
                        }
                        let v = exec_guarded(check, &t, &mut o.stats, ctx);
                        o.evaluations += 1;
                        let took = run_started.elapsed().as_millis() as u64;
                        if took > o.slowest.0 {
                            o.slowest = (took, run);
                        }
                        match v {
                            Ok(Verdict::Pass { digest, nontrivial }) => {
                                if nontrivial {
                                    o.digests.push(digest);
                                }
                                o.trace_digest = o.trace_digest.wrapping_add(fnv1a(&[run.to_le_bytes(), digest.to_le_bytes()].concat()));
                            }
                            Ok(Verdict::Skip) => {
                                o.skipped += 1;
                            }
                            Ok(Verdict::Known { finding }) => {
                                *o.known.entry(finding).or_insert(0) += 1;
                            }
                            Ok(Verdict::Violation { rule, detail }) => {
                                min_fail.fetch_min(run, Ordering::SeqCst);
                                if o.fail.as_ref().map(|f| run < f.0).unwrap_or(true) {
                                    o.fail = Some((run, rule, detail));
                                }
                            }
                            Err(e) => {
                                o.harness_err = Some(format!("run {}: {}", run, e));
                                min_fail.fetch_min(run, Ordering::SeqCst);
                                break 'outer;
                            }
                        }
                    }
                }
                {
                    let mut sl = slots[w].lock().unwrap();
                    sl.run = u64::MAX;
                    sl.trace = None;
                }
                outs.lock().unwrap().push(o);
            });
        }
        // watchdog (the only reader of a real clock; not an oracle for anything that can happen
        // on a tree whose calls return)
        let slots = &slots;
        let finished = &finished;
        let root = &root;
        s.spawn(move || loop {
            if finished.load(Ordering::SeqCst) {
                break;
            }
            std::thread::sleep(std::time::Duration::from_millis(200));
            let now = t0.elapsed().as_millis() as u64;
            for sl in slots.iter() {
                let sl = sl.lock().unwrap();
                if sl.run != u64::MAX && now.saturating_sub(sl.started_ms) > hang_limit_s() * 1000 {
                    let detail = format!("run {} did not return within {}s", sl.run, hang_limit_s());
                    let path = match &sl.trace {
                        Some(t) => write_replay(root, t, "hang", &detail, &format!("{}-{}-hang.json", seed, sl.run)),
                        None => {
                            // the shadow terminal of the generator did not return: the history it
                            // had produced so far (last atom = the one being delivered) is the trace
                            let gl = sl.gen_log.lock().unwrap();
                            match &gl.0 {
                                Some(cfg) => {
                                    let mut t = Trace::new(id, cfg.clone());
                                    t.seed = seed;
                                    t.run = sl.run;
                                    t.events = crate::sim::events_of_log(&gl.1);
                                    write_replay(root, &t, "hang", &detail, &format!("{}-{}-hang.json", seed, sl.run))
                                }
                                None => PathBuf::from("<hang-before-any-event>"),
                            }
                        }
                    };
                    if id == "C01" {
                        println!("VIOLATION property={} replay={} rule=hang detail={}", id, path.display(), detail);
                        std::process::exit(1);
                    } else {
                        eprintln!("HARNESS-ERROR: {} (trace {})", detail, path.display());
                        std::process::exit(2);
                    }
                }
            }
        });
        // wait for workers: poll the output count
        loop {
            if outs.lock().unwrap().len() == workers {
                finished.store(true, Ordering::SeqCst);
                break;
            }
            std::thread::sleep(std::time::Duration::from_millis(5));
        }
    });

    let outs = outs.into_inner().unwrap();
    let mut digests: Vec<u64> = vec![];
    let mut trace_digest = 0u64;
    let mut evaluations = 0u64;
    let mut skipped = 0u64;
    let mut known: BTreeMap<String, u64> = BTreeMap::new();
    let mut fail: Option<(u64, String, String)> = None;
    let mut steps_events = 0u64;
    let mut steps_chars = 0u64;
    let mut slowest = (0u64, 0u64);
    for o in &outs {
        if let Some(e) = &o.harness_err {
            eprintln!("HARNESS-ERROR: the harness itself panicked: {}", e);
            return 2;
        }
        total.merge(&o.stats);
        digests.extend(o.digests.iter());
        trace_digest = trace_digest.wrapping_add(o.trace_digest);
        evaluations += o.evaluations;
        skipped += o.skipped;
        steps_events += o.steps_events;
        steps_chars += o.steps_chars;
        if o.slowest.0 > slowest.0 {
            slowest = o.slowest;
        }
        for (k, v) in &o.known {
            *known.entry(k.clone()).or_insert(0) += v;
        }
        if let Some(f) = &o.fail {
            if fail.as_ref().map(|g| f.0 < g.0).unwrap_or(true) {
                fail = Some(f.clone());
            }
        }
    }
    digests.sort_unstable();
    digests.dedup();
    let explore_wall = t0.elapsed().as_secs_f64();

    // 5. violation: minimise, write, verify in a fresh process
    if let Some((run, rule, detail)) = &fail {
        violations += 1;
        let mut r = Rng::new(run_seed(seed, id, *run));
        let mut st = Stats::default();
        let mut t = check.generate(&mut r, tier, &mut st);
        t.seed = seed;
        t.run = *run;
        let full = write_replay(&root, &t, rule, detail, &format!("{}-{}-full.json", seed, run));
        let min = minimise(check, &t, &ctx, rule, 4000);
        let mut st2 = Stats::default();
        let (mrule, mdetail) = match exec_guarded(check, &min, &mut st2, &ctx) {
            Ok(Verdict::Violation { rule, detail }) => (rule, detail),
            _ => (rule.clone(), detail.clone()),
        };
        let minp = write_replay(&root, &min, &mrule, &mdetail, &format!("{}-{}.json", seed, run));
        // replay in a fresh process
        let exe = std::env::current_exe().unwrap();
        let ok = std::process::Command::new(&exe)
            .arg("replay")
            .arg(&minp)
            .env("VERIF_ROOT", &root)
            .output()
            .map(|o| o.status.code() == Some(1) && String::from_utf8_lossy(&o.stdout).contains(&format!("rule={}", mrule)))
            .unwrap_or(false);
        if ok {
            println!("VIOLATION property={} replay={} rule={} run={} seed={} events={} detail={}", id, minp.display(), mrule, run, seed, min.events.len(), mdetail);
        } else {
            println!("VIOLATION property={} replay={} rule={} run={} seed={} detail={} (minimised trace did not reproduce in a fresh process; unminimised trace given)", id, full.display(), rule, run, seed, detail);
        }
    }

    // 6. evidence
    let mut samples = vec![];
    for run in 0..3u64.min(n_runs) {
        let mut r = Rng::new(run_seed(seed, id, run));
        let mut st = Stats::default();
        let mut t = check.generate(&mut r, tier, &mut st);
        t.run = run;
        t.seed = seed;
        samples.push(sample_of(&t));
    }
    let meta = check.meta();
    let wall = t0.elapsed().as_secs_f64();
    let counters: serde_json::Map<String, Value> = total.0.iter().map(|(k, v)| (k.to_string(), json!(v))).collect();
    let probes_zero: Vec<&str> = meta.probes.iter().copied().filter(|p| total.get(p) == 0).collect();
    let fault_kinds: serde_json::Map<String, Value> = meta.fault_kinds.iter().map(|k| (k.to_string(), json!(total.get(k)))).collect();
    let ev = json!({
        "property_id": id,
        "tier": tier.name(),
        "seed": seed,
        "level": "exploration",
        "coverage": {
            "evaluations": evaluations + corpus_run,
            "distinct_nontrivial": digests.len(),
            "rule": meta.rule,
            "samples": samples,
            "exhaustive": false,
            "simulated_runs": evaluations,
            "runs_skipped_not_applicable": skipped,
            "corpus_traces_replayed": corpus_run,
            "runs_per_hour": if explore_wall > 0.0 { (evaluations as f64 / explore_wall * 3600.0) as u64 } else { 0 },
            "seeds_per_hour": if explore_wall > 0.0 { (evaluations as f64 / explore_wall * 3600.0) as u64 } else { 0 },
            "seeds_note": "one VERIF_SEED per invocation; every run derives its own PRNG seed from (VERIF_SEED, property, run index), so seeds per hour = simulated runs per hour",
            "simulated_time": "n/a (no clock in avt); simulated steps are reported instead",
            "simulated_steps": {"events_delivered": steps_events, "characters_fed": steps_chars},
            "slowest_run": {"run": slowest.1, "wall_ms": slowest.0, "hang_limit_ms": hang_limit_s() * 1000},
            "fault_kinds_fired": Value::Object(fault_kinds),
            "counters": Value::Object(counters),
            "reach_probes_at_zero": probes_zero,
            "strata_hit": total.1 .0.len(),
            "known_finding_hits": known,
            "known_finding_lines": known_lines,
            "components": {"real": meta.real, "simulated": meta.simulated, "model": meta.model},
            "trace_digest": format!("{:016x}", trace_digest),
            "workers": workers,
            "extra_phase": extra,
        },
        "assumptions": meta.assumptions,
        "wall_s": wall,
        "violations": violations,
    });
    // sensitivity runs against deliberately broken trees write their evidence elsewhere
    let edir = std::env::var("VERIF_EVIDENCE_DIR").map(PathBuf::from).unwrap_or_else(|_| root.join("evidence"));
    let _ = std::fs::create_dir_all(&edir);
    if let Err(e) = std::fs::write(edir.join(format!("{}.json", id)), serde_json::to_string_pretty(&ev).unwrap()) {
        eprintln!("HARNESS-ERROR: cannot write evidence: {}", e);
        return 2;
    }
    println!(
        "{} tier={} seed={} runs={} skipped={} distinct_nontrivial={} known_hits={:?} violations={} wall={:.1}s slowest_run={}:{}ms digest={:016x}",
        id,
        tier.name(),
        seed,
        evaluations,
        skipped,
        digests.len(),
        known,
        violations,
        wall,
        slowest.1,
        slowest.0,
        trace_digest
    );
    if violations > 0 {
        1
    } else {
        0
    }
}
