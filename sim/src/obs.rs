//! Observation of a real `avt::Vt` through its public API only, in the model's vocabulary.

use avt::Vt;

#[derive(Clone, Copy, PartialEq, Eq, Debug, Hash)]
pub enum MColor {
    Idx(u8),
    Rgb(u8, u8, u8),
}

#[derive(Clone, Copy, PartialEq, Eq, Debug, Default, Hash)]
pub struct MPen {
    pub fg: Option<MColor>,
    pub bg: Option<MColor>,
    pub intensity: u8, // 0 normal, 1 bold, 2 faint
    pub italic: bool,
    pub underline: bool,
    pub strike: bool,
    pub blink: bool,
    pub inverse: bool,
}

#[derive(Clone, Copy, PartialEq, Eq, Debug, Hash)]
pub struct MCell {
    pub ch: char,
    pub pen: MPen,
}

impl MCell {
    pub fn is_default(&self) -> bool {
        self.ch == ' ' && self.pen == MPen::default()
    }
}

#[derive(Clone, PartialEq, Eq, Debug, Hash)]
pub struct MRow {
    pub cells: Vec<MCell>,
    pub wrapped: bool,
}

impl MRow {
    pub fn blank(cols: usize, pen: MPen) -> Self {
        MRow { cells: vec![MCell { ch: ' ', pen }; cols], wrapped: false }
    }
    pub fn text(&self) -> String {
        self.cells.iter().map(|c| c.ch).collect()
    }
}

/// Observable part of a terminal (what the public API shows).
#[derive(Clone, PartialEq, Eq, Debug)]
pub struct Obs {
    pub cols: usize,
    pub rows: usize,
    pub view: Vec<MRow>,
    pub above: Vec<MRow>, // lines() above the view
    pub col: usize,
    pub row: usize,
    pub visible: bool,
    pub appkeys: bool,
}

/// The soft-wrap mark of a row, read through the public `TextUnwrapper` (returns None iff marked).
pub fn wrapped(l: &avt::Line) -> bool {
    avt::util::TextUnwrapper::new().push(l).is_none()
}

/// Builds a terminal through the public constructors: `Vt::new` (unlimited scrollback only) or the
/// builder, relying on its default 80x24 geometry where that is what is asked for. The order of the two builder calls and whether the
/// builder has been used before are varied (deterministically, from the geometry): every order is a
/// legal use of the API and must give the same terminal.
pub fn build(cols: usize, rows: usize, limit: Option<usize>) -> Vt {
    if limit.is_none() && (cols + 3 * rows) % 5 == 0 {
        // the convenience constructor: unlimited scrollback
        return Vt::new(cols, rows);
    }
    let mut b = Vt::builder();
    if cols == 80 && rows == 24 {
        // the documented default geometry: no size() call at all
        if let Some(l) = limit {
            b.scrollback_limit(l);
        }
    } else if (cols ^ rows) & 1 == 0 {
        if let Some(l) = limit {
            b.scrollback_limit(l);
        }
        b.size(cols, rows);
    } else {
        b.size(cols, rows);
        if let Some(l) = limit {
            b.scrollback_limit(l);
        }
    }
    if (cols + 2 * rows) % 3 == 0 && cols * rows <= 4096 {
        // a builder may be reused
        let _first = b.build();
    }
    b.build()
}

pub fn conv_color(c: avt::Color) -> MColor {
    match c {
        avt::Color::Indexed(i) => MColor::Idx(i),
        avt::Color::RGB(c) => MColor::Rgb(c.r, c.g, c.b),
    }
}

pub fn conv_pen(p: &avt::Pen) -> MPen {
    MPen {
        fg: p.foreground().map(conv_color),
        bg: p.background().map(conv_color),
        intensity: if p.is_bold() {
            1
        } else if p.is_faint() {
            2
        } else {
            0
        },
        italic: p.is_italic(),
        underline: p.is_underline(),
        strike: p.is_strikethrough(),
        blink: p.is_blink(),
        inverse: p.is_inverse(),
    }
}

pub fn conv_line(l: &avt::Line) -> MRow {
    MRow { cells: l.cells().iter().map(|c| MCell { ch: c.char(), pen: conv_pen(c.pen()) }).collect(), wrapped: wrapped(l) }
}

pub fn observe(vt: &Vt) -> Obs {
    let (cols, rows) = vt.size();
    let lines = vt.lines();
    let n = lines.len();
    let c = vt.cursor();
    let split = n.saturating_sub(rows);
    Obs {
        cols,
        rows,
        view: lines[split..].iter().map(conv_line).collect(),
        above: lines[..split].iter().map(conv_line).collect(),
        col: c.col,
        row: c.row,
        visible: c.visible,
        appkeys: vt.cursor_key_app_mode(),
    }
}

/// Cheap structural equality of what a user can see of two terminals *now* (visible cells, pens,
/// wrap marks, cursor, cursor-key mode). Scrollback is not included.
pub fn same_screen(a: &Vt, b: &Vt) -> Option<String> {
    if a.size() != b.size() {
        return Some(format!("size {:?} vs {:?}", a.size(), b.size()));
    }
    let (ca, cb) = (a.cursor(), b.cursor());
    if ca != cb {
        return Some(format!("cursor {:?} vs {:?}", ca, cb));
    }
    if a.cursor_key_app_mode() != b.cursor_key_app_mode() {
        return Some(format!("cursor-key mode {} vs {}", a.cursor_key_app_mode(), b.cursor_key_app_mode()));
    }
    let (va, vb) = (a.view(), b.view());
    if va.len() != vb.len() {
        return Some(format!("view length {} vs {}", va.len(), vb.len()));
    }
    for (i, (la, lb)) in va.iter().zip(vb.iter()).enumerate() {
        if la != lb {
            return Some(format!("row {} differs: {:?} vs {:?}", i, la, lb));
        }
    }
    None
}

/// Digest of the visible state (for distinct-state counting).
pub fn screen_digest(vt: &Vt) -> u64 {
    let mut d = crate::rng::Digest::new();
    let (c, r) = vt.size();
    d.u64(c as u64);
    d.u64(r as u64);
    let cur = vt.cursor();
    d.u64(cur.col as u64);
    d.u64(cur.row as u64);
    d.u64(cur.visible as u64);
    for l in vt.view() {
        for cell in l.cells() {
            d.u64(cell.char() as u64);
            let p = cell.pen();
            if !p.is_default() {
                d.str(&format!("{:?}", conv_pen(p)));
            }
        }
    }
    d.u64(vt.lines().len() as u64);
    d.0
}
