//! The single source of randomness of a run: xoshiro256** seeded through splitmix64.
//! Own implementation so that no dependency upgrade can change the stream.

#[derive(Clone, Debug)]
pub struct Rng {
    s: [u64; 4],
}

pub fn splitmix64(x: &mut u64) -> u64 {
    *x = x.wrapping_add(0x9E37_79B9_7F4A_7C15);
    let mut z = *x;
    z = (z ^ (z >> 30)).wrapping_mul(0xBF58_476D_1CE4_E5B9);
    z = (z ^ (z >> 27)).wrapping_mul(0x94D0_49BB_1331_11EB);
    z ^ (z >> 31)
}

pub fn fnv1a(s: &[u8]) -> u64 {
    let mut h: u64 = 0xcbf2_9ce4_8422_2325;
    for b in s {
        h ^= *b as u64;
        h = h.wrapping_mul(0x0000_0100_0000_01B3);
    }
    h
}

/// Seed of run `run` of property `prop` under `VERIF_SEED = seed`.
pub fn run_seed(seed: u64, prop: &str, run: u64) -> u64 {
    let mut x = seed ^ fnv1a(prop.as_bytes()) ^ run.wrapping_mul(0x9E37_79B9_7F4A_7C15);
    splitmix64(&mut x)
}

impl Rng {
    pub fn new(seed: u64) -> Self {
        let mut x = seed;
        let s = [splitmix64(&mut x), splitmix64(&mut x), splitmix64(&mut x), splitmix64(&mut x)];
        Rng { s }
    }

    pub fn next(&mut self) -> u64 {
        let r = self.s[1].wrapping_mul(5).rotate_left(7).wrapping_mul(9);
        let t = self.s[1] << 17;
        self.s[2] ^= self.s[0];
        self.s[3] ^= self.s[1];
        self.s[1] ^= self.s[2];
        self.s[0] ^= self.s[3];
        self.s[2] ^= t;
        self.s[3] = self.s[3].rotate_left(45);
        r
    }

    /// uniform in 0..n (n > 0); the tiny modulo bias is irrelevant here
    pub fn below(&mut self, n: u64) -> u64 {
        debug_assert!(n > 0);
        self.next() % n
    }

    pub fn usize_below(&mut self, n: usize) -> usize {
        self.below(n as u64) as usize
    }

    /// uniform in lo..=hi
    pub fn range(&mut self, lo: usize, hi: usize) -> usize {
        lo + self.below((hi - lo + 1) as u64) as usize
    }

    pub fn chance(&mut self, num: u64, den: u64) -> bool {
        self.below(den) < num
    }

    pub fn pick<'a, T>(&mut self, v: &'a [T]) -> &'a T {
        &v[self.below(v.len() as u64) as usize]
    }

    /// weighted index
    pub fn weighted(&mut self, w: &[u32]) -> usize {
        let total: u64 = w.iter().map(|x| *x as u64).sum();
        if total == 0 {
            return 0;
        }
        let mut x = self.below(total);
        for (i, wi) in w.iter().enumerate() {
            if x < *wi as u64 {
                return i;
            }
            x -= *wi as u64;
        }
        w.len() - 1
    }
}

/// Order-independent 64-bit digest helper (FNV over u64 words).
#[derive(Clone, Copy)]
pub struct Digest(pub u64);

impl Digest {
    pub fn new() -> Self {
        Digest(0xcbf2_9ce4_8422_2325)
    }
    pub fn u64(&mut self, v: u64) {
        for i in 0..8 {
            self.0 ^= (v >> (8 * i)) & 0xff;
            self.0 = self.0.wrapping_mul(0x0000_0100_0000_01B3);
        }
    }
    pub fn bytes(&mut self, b: &[u8]) {
        for x in b {
            self.0 ^= *x as u64;
            self.0 = self.0.wrapping_mul(0x0000_0100_0000_01B3);
        }
        self.u64(b.len() as u64);
    }
    pub fn str(&mut self, s: &str) {
        self.bytes(s.as_bytes());
    }
}
