//! C01 - total on every input: no panic, no hang.
use crate::obs::{build, screen_digest};
use crate::rng::Rng;
use crate::runner::*;
use crate::sim::{observe_all, Live};
use crate::trace::{Event, Trace};
use crate::sim::{catch_avt, thread_cpu_ns};

/// CPU-time budget of one `Vt::resize`: a fixed allowance plus a per-cell allowance about fifty
/// times the measured cost of the (linear) re-wrap, so that only super-linear behaviour trips it.
const RESIZE_FIXED_NS: u64 = 500_000_000;
const RESIZE_NS_PER_CELL: u64 = 5_000;

pub struct C01;

impl Check for C01 {
    fn id(&self) -> &'static str {
        "C01"
    }
    fn runs(&self, tier: Tier) -> u64 {
        match tier {
            Tier::Quick => 1_200_000,
            Tier::Thorough => 30_000_000,
        }
    }
    fn generate(&self, r: &mut Rng, tier: Tier, st: &mut Stats) -> Trace {
        super::chaos_trace(r, tier, "C01", st)
    }
    fn execute(&self, t: &Trace, st: &mut Stats, _ctx: &Ctx) -> Verdict {
        let mut live = match catch_avt(|| Live::new(&t.config)) {
            Ok(l) => l,
            Err(e) => return Verdict::Violation { rule: "panic".into(), detail: format!("building the terminal: {}", e) },
        };
        // TextCollector twin receives the same feeds and resizes
        let mut collector = Some(avt::util::TextCollector::new(build(t.config.cols, t.config.rows, t.config.limit)));
        let mut env = 0u64;
        let mut fed = 0u64;
        for (i, e) in t.events.iter().enumerate() {
            // cost of a resize: the work it requests is re-wrapping the cells the terminal holds
            let cells_before = live.vt.lines().len() * live.vt.size().0;
            let is_resize = matches!(e, Event::Resize { .. });
            let mut resize_cpu = 0u64;
            let r = catch_avt(|| {
                let c0 = if is_resize { thread_cpu_ns() } else { 0 };
                let rep = live.apply(e);
                if is_resize {
                    resize_cpu = thread_cpu_ns() - c0;
                }
                match e {
                    Event::Observe => {
                        observe_all(&live.vt);
                    }
                    Event::Snapshot => {
                        let d = live.vt.dump();
                        let (c, rw) = live.vt.size();
                        let mut fresh = build(c, rw, live.limit);
                        fresh.feed_str(&d);
                        let _ = fresh.dump();
                    }
                    _ => {}
                }
                if let Some(tc) = collector.as_mut() {
                    match e {
                        Event::FeedStr { s, .. } | Event::Feed { s } | Event::Inert { s, .. } => {
                            let n = tc.feed_str(s).count();
                            std::hint::black_box(n);
                        }
                        Event::Resize { cols, rows, .. } => {
                            if *cols <= u16::MAX as usize && *rows <= u16::MAX as usize {
                                let n = tc.resize(*cols as u16, *rows as u16).count();
                                std::hint::black_box(n);
                            }
                        }
                        _ => {}
                    }
                }
                rep.chars
            });
            if is_resize && r.is_ok() {
                let cells_after = live.vt.lines().len() * live.vt.size().0;
                let work = (cells_before + cells_after) as u64;
                let budget = RESIZE_FIXED_NS + RESIZE_NS_PER_CELL * work;
                st.bump("resize_cost_judged");
                if work >= 100_000 {
                    st.bump("resize_cost_judged_100k_cells");
                }
                let mut resize_cpu = resize_cpu;
                if resize_cpu > budget {
                    // a single measurement can be inflated by the machine (page reclaim and other
                    // kernel work is charged to the thread): repeat the same resize on fresh
                    // terminals brought to the same state and judge the fastest of four
                    st.bump("resize_cost_remeasured");
                    if let Event::Resize { cols, rows, .. } = e {
                        for _ in 0..3 {
                            let again = catch_avt(|| {
                                let mut fork = crate::sim::replay_plain(&t.config, &t.events[..i]);
                                let c0 = thread_cpu_ns();
                                let ch = fork.resize(*cols, *rows);
                                ch.scrollback.for_each(drop);
                                thread_cpu_ns() - c0
                            });
                            if let Ok(ns) = again {
                                resize_cpu = resize_cpu.min(ns);
                            }
                        }
                    }
                }
                if resize_cpu > budget {
                    return Verdict::Violation {
                        rule: "resize-cost".into(),
                        detail: format!(
                            "event #{} ({}): the resize used {} ms of CPU time; the terminal held {} cells before and {} after, for which the budget ({} ms + {} ns per cell, ~50x the measured linear cost; fastest of four measurements) is {} ms - running time is not bounded by the work requested",
                            i,
                            crate::trace::event_brief(e),
                            resize_cpu / 1_000_000,
                            cells_before,
                            cells_after,
                            RESIZE_FIXED_NS / 1_000_000,
                            RESIZE_NS_PER_CELL,
                            budget / 1_000_000
                        ),
                    };
                }
            }
            match r {
                Ok(n) => {
                    fed += n as u64;
                    if !matches!(e, Event::FeedStr { drain: crate::trace::Drain::All, .. }) {
                        env += 1;
                    }
                }
                Err(p) => {
                    return Verdict::Violation { rule: "panic".into(), detail: format!("event #{} ({}) panicked: {}", i, crate::trace::event_brief(e).chars().take(80).collect::<String>(), p) };
                }
            }
        }
        let r = catch_avt(|| {
            observe_all(&live.vt);
            if let Some(tc) = collector.take() {
                std::hint::black_box(tc.flush().len());
            }
        });
        if let Err(p) = r {
            return Verdict::Violation { rule: "panic".into(), detail: format!("final queries / TextCollector::flush panicked: {}", p) };
        }
        if live.hid.alt {
            st.bump("ended_on_alternate");
        }
        let (c, rw) = live.vt.size();
        if c == 1 {
            st.bump("one_column_end");
        }
        if rw == 1 {
            st.bump("one_row_end");
        }
        Verdict::Pass { digest: screen_digest(&live.vt), nontrivial: fed > 0 && env > 0 }
    }
    fn meta(&self) -> Meta {
        Meta {
            rule: "no panic, no hang (120 s watchdog), and the CPU time of each Vt::resize within a budget linear in the cells the terminal holds before and after (500 ms + 5 us per cell, ~50x the measured linear cost; an excess is re-measured three times on fresh terminals and the fastest of the four counts) - running time bounded by the work requested; chaos sessions (swarm profile of 17 token families incl. garbage / partial tokens, S5 damage, every cut policy, resizes and snapshots at any character position, every drain policy, sizes 1x1..132x50, resizes to and from very wide / very tall geometries (513..70000 in one dimension, bounded so that rows kept x new width <= 4M cells), limits None/0/1/2/5/9/10/11/20/100/10^6); a run is non-trivial if it fed >= 1 character and contained >= 1 environment event (resize, feed() loop, non-full drain, snapshot, observe); distinct = distinct final-screen digests among non-trivial runs",
            assumptions: vec!["panics are observed through catch_unwind in a build with overflow-checks and debug-assertions on", "a hang is a run exceeding 120 s wall-clock (normal < 50 ms)", "the resize cost is measured as thread CPU time (CLOCK_THREAD_CPUTIME_ID), so descheduling on a loaded machine does not count", "allocation failure of legitimately huge requests and mem::forget(Changes) are out of scope"],
            real: vec!["avt::Vt (whole library)", "avt::parser::Parser (lock-step)", "avt::util::TextCollector"],
            simulated: vec!["App (token producer)", "Pipe (cuts, damage)", "Window (resizes)", "Snapshotter", "Consumer (drain policy)", "Observer (accessors)"],
            model: vec!["hidden-state tracker (only for in-flight boosting of the scheduler)"],
            probes: vec!["resize_while_wrap_pending", "resize_mid_sequence", "resize_while_alternate", "damaged_tokens", "drain_drop", "drain_partial", "observe_events", "snapshot_events", "one_column_end", "one_row_end", "feed_char_calls", "giant_resizes", "resize_cost_judged", "resize_cost_judged_100k_cells"],
            fault_kinds: vec!["giant_resizes", "resize_events", "resize_while_wrap_pending", "resize_mid_sequence", "resize_while_alternate", "snapshot_events", "snapshot_mid_sequence", "damaged_tokens", "env_events_inside_token", "drain_partial", "drain_drop", "feed_char_calls"],
        }
    }
}
