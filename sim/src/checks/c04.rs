//! C04 - printing, auto-wrap, insert mode and charsets (refinement against the reference model, see modelrun.rs).
use super::modelrun::{self, Target};
use crate::rng::Rng;
use crate::runner::*;
use crate::trace::Trace;

pub struct C04;

impl Check for C04 {
    fn id(&self) -> &'static str {
        "C04"
    }
    fn runs(&self, tier: Tier) -> u64 {
        match tier {
            Tier::Quick => 400_000,
            Tier::Thorough => 8_000_000,
        }
    }
    fn generate(&self, r: &mut Rng, tier: Tier, st: &mut Stats) -> Trace {
        modelrun::generate(Target::Print, r, tier, st)
    }
    fn execute(&self, t: &Trace, st: &mut Stats, ctx: &Ctx) -> Verdict {
        modelrun::execute(Target::Print, t, st, ctx)
    }
    fn meta(&self) -> Meta {
        meta()
    }
}

fn meta() -> Meta {
    Meta {
        rule: "in-domain sessions (text incl. DEL, drawing-set range, Latin-1, CJK; DECAWM, IRM, SO/SI, G0/G1 designation, SGR, DECSTBM, cursor placement; resizes at any instant), one character per call, full observation after each; for every Print / Rep the observed post-state (cells, pens, wrap marks, scrollback, cursor) must equal step(pre, f) of the reference model, where pre = observed state + model hidden state; all other functions only step the hidden state and the observation is adopted; non-trivial = a run with >= 1 target step; distinct = digests of the sequence of strata (function x column class x row class x origin x auto-wrap x insert x size class x alternate x after-resize)",
        assumptions: vec!["reference model (RefTerm) is the trusted base; tolerated corners per DESIGN.md section 4 (wrap mark of the row left when wrapping on an inner bottom margin; REP re-translation under the drawing set)", "'current pen' is the model's fold of the SGR functions the lock-step parser reported (C08 cross-talk accepted, rule id .../pen)", "a run in which avt panics is abandoned (C01's subject)"],
        real: vec!["avt::Vt", "avt::parser::Parser (lock-step)"],
        simulated: vec!["App (stratified / swarm token producer)", "Window (resizes create wrap-pending-across-width-change, region reset / kept states)"],
        model: vec!["RefTerm (full grid)"],
        probes: vec!["target_steps", "print_from_wrap_pending", "insert_mode_at_last_column", "wrap_pending_with_autowrap_off", "print_under_drawing_set", "print_on_one_column_screen", "wrap_on_inner_bottom_margin", "wrap_on_last_row_below_region", "rep_steps", "target_steps_after_a_resize"],
        fault_kinds: vec!["resize_events", "resize_while_wrap_pending", "resize_mid_sequence", "resize_while_alternate"],
    }
}
