//! C02 - screen geometry invariants after every public call.
use crate::obs::{screen_digest, wrapped};
use crate::rng::Rng;
use crate::runner::*;
use crate::sim::Live;
use crate::trace::{Event, Trace};
use avt::parser::Function;
use crate::sim::catch_avt;

pub struct C02;

pub fn geometry(live: &Live, want: (usize, usize)) -> Option<(&'static str, String)> {
    let vt = &live.vt;
    let (cols, rows) = vt.size();
    if (cols, rows) != want {
        return Some(("size", format!("size() = {:?}, last requested {:?}", (cols, rows), want)));
    }
    let view = vt.view();
    let lines = vt.lines();
    if view.len() != rows {
        return Some(("view-len", format!("view().len() = {} != rows {}", view.len(), rows)));
    }
    if lines.len() < rows {
        return Some(("lines-short", format!("lines().len() = {} < rows {}", lines.len(), rows)));
    }
    if &lines[lines.len() - rows..] != view {
        return Some(("view-not-tail", "view() is not the tail of lines()".into()));
    }
    for (i, l) in lines.iter().enumerate() {
        if l.len() != cols {
            return Some(("line-width", format!("line {} of lines() has {} cells, cols = {}", i, l.len(), cols)));
        }
    }
    if wrapped(lines.last().unwrap()) {
        return Some(("last-line-wrapped", "the last line is marked soft-wrapped".into()));
    }
    let c = vt.cursor();
    if c.row >= rows {
        return Some(("cursor-row", format!("cursor.row = {} >= rows {}", c.row, rows)));
    }
    if c.col > cols {
        return Some(("cursor-col", format!("cursor.col = {} > cols {}", c.col, cols)));
    }
    for n in 0..rows {
        if vt.line(n) != &view[n] {
            return Some(("line-n", format!("line({}) != view()[{}]", n, n)));
        }
    }
    None
}

/// Functions that leave the wrap-pending column whenever they execute (every explicit horizontal or
/// vertical placement does; line feeds and reverse index keep it when they scroll).
fn leaves_pending(f: &Function) -> bool {
    use Function::*;
    matches!(f, Cuu(_) | Cud(_) | Cuf(_) | Cub(_) | Cnl(_) | Cpl(_) | Vpr(_) | Vpa(_) | Cup(..) | Cha(_) | Cr | Bs | Ht | Cht(_) | Cbt(_) | Decrc | Scorc | Decstbm(..))
}

/// true if, after the last Print/Rep of the call, a function executed that leaves the wrap-pending
/// column - then the call cannot legitimately end with col == cols
fn pending_must_be_gone(funcs: &[Function]) -> Option<&Function> {
    let last_print = funcs.iter().rposition(|f| matches!(f, Function::Print(_) | Function::Rep(_)));
    let from = last_print.map(|k| k + 1).unwrap_or(0);
    funcs[from..].iter().find(|f| leaves_pending(f))
}

fn check_changes(lines: &Option<Vec<usize>>, rows: usize) -> Option<(&'static str, String)> {
    if let Some(ls) = lines {
        for w in ls.windows(2) {
            if w[0] >= w[1] {
                return Some(("changes-order", format!("Changes.lines not strictly increasing: {:?}", ls)));
            }
        }
        if let Some(m) = ls.last() {
            if *m >= rows {
                return Some(("changes-range", format!("Changes.lines contains {} >= rows {}", m, rows)));
            }
        }
    }
    None
}

impl Check for C02 {
    fn id(&self) -> &'static str {
        "C02"
    }
    fn runs(&self, tier: Tier) -> u64 {
        match tier {
            Tier::Quick => 1_000_000,
            Tier::Thorough => 20_000_000,
        }
    }
    fn generate(&self, r: &mut Rng, tier: Tier, st: &mut Stats) -> Trace {
        super::chaos_trace(r, tier, "C02", st)
    }
    fn execute(&self, t: &Trace, st: &mut Stats, _ctx: &Ctx) -> Verdict {
        let res = catch_avt(|| {
            let mut live = Live::new(&t.config);
            let mut want = (t.config.cols, t.config.rows);
            if let Some((r, d)) = geometry(&live, want) {
                return Verdict::Violation { rule: format!("C02/{}", r), detail: format!("fresh terminal: {}", d) };
            }
            let mut env = 0u64;
            let mut fed = 0u64;
            for (i, e) in t.events.iter().enumerate() {
                let pre = live.vt.cursor();
                let pre_cols = live.vt.size().0;
                let fail = |rule: &str, d: String| Verdict::Violation { rule: format!("C02/{}", rule), detail: format!("after event #{} ({}): {}", i, crate::trace::event_brief(e).chars().take(60).collect::<String>(), d) };
                match e {
                    Event::Feed { s } => {
                        // per character: the invariant is "after every public call"
                        for ch in s.chars() {
                            let pre = live.vt.cursor();
                            let one = Event::Feed { s: ch.to_string() };
                            let rep = live.apply(&one);
                            fed += 1;
                            if let Some((r, d)) = geometry(&live, want) {
                                return fail(r, d);
                            }
                            let c = live.vt.cursor();
                            if c.col == want.0 {
                                let printed = rep.funcs.iter().any(|f| matches!(f, Function::Print(_) | Function::Rep(_)));
                                if !(printed || pre.col == want.0) {
                                    return fail("pending-not-by-print", format!("cursor.col == cols after feed({:?}) without a print (before: col {})", ch, pre.col));
                                }
                                let switched = rep.funcs.iter().any(|f| matches!(f, Function::Decset(_) | Function::Decrst(_) | Function::Ris));
                                if !printed && !switched && c.row != pre.row {
                                    return fail("pending-moved-without-print", format!("feed({:?}) moved the cursor from row {} to row {} keeping col == cols although nothing was printed", ch, pre.row, c.row));
                                }
                                if let Some(f) = pending_must_be_gone(&rep.funcs) {
                                    return fail("pending-survived-a-move", format!("cursor.col == cols after {:?}, which places the cursor explicitly", f));
                                }
                            }
                        }
                        env += 1;
                    }
                    _ => {
                        if let Event::Resize { cols, rows, .. } = e {
                            want = (*cols, *rows);
                            env += 1;
                        }
                        let pre_hid = if matches!(e, Event::FeedStr { .. } | Event::Inert { .. }) { Some(live.hid.clone()) } else { None };
                        let rep = live.apply(e);
                        fed += rep.chars as u64;
                        if let Some((r, d)) = geometry(&live, want) {
                            return fail(r, d);
                        }
                        if let Some((r, d)) = check_changes(&rep.lines, want.1) {
                            return fail(r, d);
                        }
                        let c = live.vt.cursor();
                        if c.col == want.0 {
                            let printed = rep.funcs.iter().any(|f| matches!(f, Function::Print(_) | Function::Rep(_)));
                            let width_changed = want.0 != pre_cols;
                            if width_changed && matches!(e, Event::Resize { .. }) {
                                return fail("pending-after-width-change", format!("cursor.col == cols == {} right after a width change", want.0));
                            }
                            if !(printed || pre.col == pre_cols) {
                                return fail("pending-not-by-print", format!("cursor.col == cols without a print in the call (before: col {})", pre.col));
                            }
                            let switched = rep.funcs.iter().any(|f| matches!(f, Function::Decset(_) | Function::Decrst(_) | Function::Ris));
                            // (a buffer switch applies a pending rows-only resize to the screen that
                            // becomes active, which may shift the row like a resize call does)
                            if !printed && !switched && !matches!(e, Event::Resize { .. }) && c.row != pre.row {
                                // a pending wrap that was not renewed by a print cannot have moved to
                                // another row: every vertical move leaves the wrap-pending column
                                return fail("pending-moved-without-print", format!("cursor went from row {} to row {} keeping col == cols although nothing was printed", pre.row, c.row));
                            }
                            if let (Some(mut h), true) = (pre_hid, pre.col != pre_cols) {
                                // the wrap-pending position was reached in this call: by the statement
                                // that needs a print in the last column *with auto-wrap on*. Replay the
                                // call's functions on the hidden-state tracker: if auto-wrap was off at
                                // every print of the call, the position cannot be legitimate.
                                let mut any_print_with_awm = false;
                                for f in &rep.funcs {
                                    if matches!(f, Function::Print(_) | Function::Rep(_)) && h.awm {
                                        any_print_with_awm = true;
                                    }
                                    crate::sim::harness(|| {
                                        h.step(f);
                                    });
                                }
                                if !any_print_with_awm {
                                    return fail("pending-with-auto-wrap-off", "cursor.col == cols was reached in a call in which auto-wrap was off at every print".to_string());
                                }
                                st.bump("pending_reached_checked_against_auto_wrap");
                            }
                            if let Some(f) = pending_must_be_gone(&rep.funcs) {
                                return fail("pending-survived-a-move", format!("cursor.col == cols at the end of a call in which {:?} executed after the last print", f));
                            }
                            st.bump("wrap_pending_after_call");
                        }
                        if matches!(e, Event::Resize { .. }) && live.hid.alt {
                            st.bump("resize_seen_on_alternate");
                        }
                    }
                }
            }
            Verdict::Pass { digest: screen_digest(&live.vt), nontrivial: fed > 0 && env > 0 }
        });
        match res {
            Ok(v) => v,
            // a panic is C01's subject; the geometry after a call that never returned is undefined
            Err(_) => {
                st.bump("runs_abandoned_on_panic");
                Verdict::Skip
            }
        }
    }
    fn meta(&self) -> Meta {
        Meta {
            rule: "chaos sessions as in C01 (incl. resizes to and from very wide / very tall geometries, 513..70000 in one dimension); after every feed_str / feed(char) / resize the geometry invariants of the statement are evaluated through the public API; non-trivial = fed >= 1 character and >= 1 resize or feed() loop; distinct = distinct final-screen digests",
            assumptions: vec!["soft-wrap mark read through util::TextUnwrapper::push", "'col == cols only by printing with auto-wrap on' checked as necessary conditions: a Print/Rep was dispatched in the call (lock-step parser) or the cursor was already pending before it on the same row and the width did not change; and when the position is newly reached, auto-wrap (hidden-state tracker: DECSET/DECRST 7, restored contexts, RIS) was on at some print of the call", "a run in which avt panics is abandoned (C01's subject)"],
            real: vec!["avt::Vt", "avt::parser::Parser (lock-step)"],
            simulated: vec!["App", "Pipe (cuts, damage)", "Window", "Consumer"],
            model: vec!["hidden-state tracker (alternate-screen flag for probes only)"],
            probes: vec!["resize_while_wrap_pending", "resize_mid_sequence", "resize_while_alternate", "wrap_pending_after_call", "resize_seen_on_alternate"],
            fault_kinds: vec!["resize_events", "resize_while_wrap_pending", "resize_mid_sequence", "resize_while_alternate", "damaged_tokens", "env_events_inside_token", "drain_partial", "drain_drop", "feed_char_calls"],
        }
    }
}
