//! C16 - the alternate screen never disturbs the primary screen.
use super::c10::{logical, Logical};
use crate::gen::*;
use crate::model::parser::{RefParser, RF};
use crate::obs::{conv_pen, screen_digest, MCell};
use crate::rng::Rng;
use crate::runner::*;
use crate::sim::{catch_avt, gen_events_anycut, GenStats, Live, SessionOpts};
use crate::trace::{Config, Drain, Event, Trace};
use avt::parser::Function;
use avt::Line;

pub struct C16;

struct Entry {
    text: Vec<String>,
    lines: Vec<Line>,
    cursor: (usize, usize),
    logical: Logical,
    by_1049: bool,
    pending: bool,
    event: usize,
}

fn is_prefix(a: &[MCell], b: &[MCell]) -> bool {
    a.len() <= b.len() && a == &b[..a.len()]
}

/// primary logical lines after a resized excursion: never altered, at most cut short at the end
fn cut_relation(before: &[Vec<MCell>], after: &[Vec<MCell>]) -> Option<String> {
    let mut cut = false;
    for i in 0..before.len().max(after.len()) {
        let o: &[MCell] = before.get(i).map(|v| &v[..]).unwrap_or(&[]);
        let n: &[MCell] = after.get(i).map(|v| &v[..]).unwrap_or(&[]);
        if cut {
            if !n.is_empty() {
                return Some(format!("logical line {} is non-empty although an earlier line was cut short", i));
            }
        } else if n != o {
            if !is_prefix(n, o) {
                return Some(format!("logical line {} of the primary was altered ({} -> {} cells), not merely cut", i, o.len(), n.len()));
            }
            cut = true;
        }
    }
    None
}

impl Check for C16 {
    fn id(&self) -> &'static str {
        "C16"
    }
    fn runs(&self, tier: Tier) -> u64 {
        match tier {
            Tier::Quick => 500_000,
            Tier::Thorough => 8_000_000,
        }
    }
    fn generate(&self, r: &mut Rng, tier: Tier, st: &mut Stats) -> Trace {
        let big = tier == Tier::Thorough && r.chance(1, 25);
        let (mc, mr) = if big { (80, 24) } else { (20, 10) };
        let (cols, rows) = gen_size(r, mc, mr);
        let with_resize = r.chance(1, 2);
        let limit = if with_resize { None } else { *r.pick(&[None, None, Some(0), Some(3), Some(12)]) };
        let cfg = Config { cols, rows, limit };
        let mut gs = GenStats::default();
        // 1. primary history
        let mut p = Profile::base();
        p.fam[F_ALT] = 0;
        p.fam[F_TEXT] = 40;
        p.fam[F_C0] = 16;
        p.allow_ris = false;
        p.resize_pm = if with_resize { 40 } else { 0 };
        p.huge = false;
        p.max_tokens = 14;
        if r.chance(1, 3) {
            p = p.swarm(r);
            p.fam[F_ALT] = 0;
        }
        let o = SessionOpts { profile: p.clone(), max_cols: mc, max_rows: mr };
        let mut evs = gen_events_anycut(r, &cfg, &o, DrainPolicy::AlwaysAll, &mut gs);
        let n_exc = 1 + r.usize_below(2);
        let (mut c, mut rw) = (cols, rows);
        for _ in 0..n_exc {
            for e in &evs {
                if let Event::Resize { cols, rows, .. } = e {
                    c = *cols;
                    rw = *rows;
                }
            }
            // 2. enter
            let m_in = *r.pick(&["47", "1047", "1049", "1049"]);
            evs.push(Event::FeedStr { s: format!("\x1b[?{}h", m_in), drain: Drain::All });
            // 3. anything on the alternate screen except leaving it or a hard reset
            let mut pa = Profile::base();
            pa.fam[F_ALT] = 0;
            pa.allow_ris = false;
            pa.fam[F_SCROLL] = 14;
            pa.fam[F_EDIT] = 12;
            pa.fam[F_TEXT] = 30;
            pa.resize_pm = if with_resize { *r.pick(&[80, 200]) } else { 0 };
            pa.huge = false;
            pa.max_tokens = 14;
            if r.chance(1, 3) {
                pa = pa.swarm(r);
                pa.fam[F_ALT] = 0;
            }
            let oa = SessionOpts { profile: pa, max_cols: mc, max_rows: mr };
            let cfa = Config { cols: c, rows: rw, limit };
            let inner = gen_events_anycut(r, &cfa, &oa, DrainPolicy::AlwaysAll, &mut gs);
            evs.extend(inner);
            // 4. leave (mixed mode numbers)
            let m_out = if r.chance(1, 2) { m_in } else { *r.pick(&["47", "1047", "1049"]) };
            evs.push(Event::FeedStr { s: format!("\x1b[?{}l", m_out), drain: Drain::All });
            if r.chance(1, 2) {
                let cfb = Config { cols: c, rows: rw, limit };
                let mut pb = p.clone();
                pb.max_tokens = 5;
                pb.resize_pm = 0;
                let ob = SessionOpts { profile: pb, max_cols: mc, max_rows: mr };
                evs.extend(gen_events_anycut(r, &cfb, &ob, DrainPolicy::AlwaysAll, &mut gs));
            }
        }
        super::record_gen(st, &gs);
        let mut t = Trace::new("C16", cfg);
        t.events = evs;
        t
    }
    fn execute(&self, t: &Trace, st: &mut Stats, _ctx: &Ctx) -> Verdict {
        let res = catch_avt(|| -> Verdict {
            let mut live = Live::new(&t.config);
            let mut refp = RefParser::new();
            let mut entry: Option<Entry> = None;
            let mut excursions = 0u64;
            let mut dg = crate::rng::Digest::new();
            for (ei, e) in t.events.iter().enumerate() {
                let s = match e {
                    Event::Resize { .. } => {
                        live.apply(e);
                        if live.hid.alt {
                            st.bump("resize_during_excursion");
                        }
                        continue;
                    }
                    Event::FeedStr { s, .. } | Event::Feed { s } | Event::Inert { s, .. } => s,
                    _ => continue,
                };
                let mut buf = [0u8; 4];
                // a feed() loop stays a feed() loop: it never collects garbage, so the primary can
                // enter the excursion with a trim still pending
                let by_feed = matches!(e, Event::Feed { .. });
                if by_feed {
                    st.bump("events_delivered_by_feed_loop");
                }
                for ch in s.chars() {
                    // look ahead with the reference parser: will this character enter / leave?
                    let rf = refp.feed(ch);
                    let entering = !live.hid.alt && matches!(&rf, Some(RF::Decset(ms)) if ms.iter().any(|m| *m == 1047 || *m == 1049));
                    if entering {
                        let c = live.vt.cursor();
                        let by_1049 = matches!(&rf, Some(RF::Decset(ms)) if ms.len() == 1 && ms[0] == 1049);
                        entry = Some(Entry { text: live.vt.text(), lines: live.vt.lines().to_vec(), cursor: (c.col, c.row), logical: logical(&live.vt), by_1049, pending: c.col >= live.vt.size().0, event: ei });
                    }
                    let pen_at_entry = live.hid.pen;
                    let was_alt = live.hid.alt;
                    let pre_resized = live.hid.resized_in_alt;
                    let f = live.parser.feed(ch);
                    let mut handed_out: Vec<Line> = vec![];
                    if by_feed {
                        live.vt.feed(ch);
                    } else {
                        let chg = live.vt.feed_str(ch.encode_utf8(&mut buf));
                        handed_out.extend(chg.scrollback);
                    }
                    if let Some(f) = &f {
                        live.track(f);
                    }
                    live.resync();
                    if matches!(f, Some(Function::Ris)) {
                        entry = None;
                        continue;
                    }
                    let (cols, rows) = live.vt.size();
                    if !was_alt && live.hid.alt {
                        // every entry presents a blank alternate screen filled with the current pen
                        st.bump("entries");
                        if live.vt.lines().len() != rows {
                            return Verdict::Violation { rule: "C16/entry-has-scrollback".into(), detail: format!("event #{}: alternate screen entered with lines().len() = {} != rows {}", ei, live.vt.lines().len(), rows) };
                        }
                        for (ri, l) in live.vt.view().iter().enumerate() {
                            for (ci, cell) in l.cells().iter().enumerate() {
                                if cell.char() != ' ' || conv_pen(cell.pen()) != pen_at_entry {
                                    return Verdict::Violation { rule: "C16/entry-not-blank".into(), detail: format!("event #{}: alternate screen cell ({},{}) is {:?} on entry, expected a blank in the current pen {:?}", ei, ci, ri, cell, pen_at_entry) };
                                }
                            }
                        }
                    }
                    if was_alt && !live.hid.alt {
                        // left the alternate screen
                        let Some(en) = entry.take() else { continue };
                        excursions += 1;
                        st.bump("excursions_judged");
                        let resized = pre_resized;
                        let by_1049_out = matches!(&f, Some(Function::Decrst(ms)) if ms.len() == 1 && matches!(ms[0], avt::parser::DecMode::SaveCursorAltScreenBuffer));
                        let cur = live.vt.cursor();
                        dg.u64(cur.col as u64 ^ (cur.row as u64) << 8 ^ (resized as u64) << 16 ^ (by_1049_out as u64) << 17);
                        let ctx_s = format!("excursion entered at event #{} left at event #{} ({}x{})", en.event, ei, cols, rows);
                        if !resized {
                            st.bump("excursions_without_resize");
                            let now = live.vt.lines();
                            if t.config.limit.is_none() {
                                if now != &en.lines[..] {
                                    return Verdict::Violation { rule: "C16/primary-lines-changed".into(), detail: format!("{}: primary lines() differ from what they were on entry ({} vs {} lines)", ctx_s, now.len(), en.lines.len()) };
                                }
                                if live.vt.text() != en.text {
                                    return Verdict::Violation { rule: "C16/text-changed".into(), detail: format!("{}: text() differs after return", ctx_s) };
                                }
                            } else {
                                // under a limit the call that returns may run a trim that was pending
                                // since before the excursion (possible only after feed() loops): the
                                // oldest lines may be gone then - exactly down to the limit, handed out
                                // through this call's Changes.scrollback - and nothing else
                                let l = t.config.limit.unwrap_or(0);
                                let bound = rows + l + l / 10;
                                if now.len() > en.lines.len() || now != &en.lines[en.lines.len() - now.len()..] {
                                    return Verdict::Violation { rule: "C16/primary-lines-changed".into(), detail: format!("{}: primary lines() after return ({} lines) are not the newest part of what they were on entry ({} lines)", ctx_s, now.len(), en.lines.len()) };
                                }
                                if now.len() < en.lines.len() {
                                    st.bump("pending_trim_ran_on_return");
                                    if en.lines.len() <= bound {
                                        return Verdict::Violation { rule: "C16/primary-trimmed-without-need".into(), detail: format!("{}: the primary held {} lines on entry (bound {}), after return only {}", ctx_s, en.lines.len(), bound, now.len()) };
                                    }
                                    if now.len() != rows + l {
                                        return Verdict::Violation { rule: "C16/primary-trimmed-wrongly".into(), detail: format!("{}: the pending trim left {} lines, expected rows + limit = {}", ctx_s, now.len(), rows + l) };
                                    }
                                    if !by_feed {
                                        let dropped = &en.lines[..en.lines.len() - now.len()];
                                        if handed_out != dropped {
                                            return Verdict::Violation { rule: "C16/trimmed-lines-not-handed-out".into(), detail: format!("{}: {} lines left the primary on return but {} were handed out through Changes.scrollback", ctx_s, dropped.len(), handed_out.len()) };
                                        }
                                    }
                                }
                            }
                            if en.by_1049 && by_1049_out {
                                st.bump("cursor_restored_1049");
                                let want = (en.cursor.0.min(cols - 1), en.cursor.1);
                                if (cur.col, cur.row) != want {
                                    return Verdict::Violation { rule: "C16/1049-cursor".into(), detail: format!("{}: 1049 excursion left the cursor at {},{} instead of {},{}", ctx_s, cur.col, cur.row, want.0, want.1) };
                                }
                            }
                        } else {
                            st.bump("excursions_with_resize");
                            let after = logical(&live.vt);
                            if let Some(d) = cut_relation(&en.logical.lines, &after.lines) {
                                return Verdict::Violation { rule: "C16/primary-altered-after-resize".into(), detail: format!("{}: {}", ctx_s, d) };
                            }
                            if let Some((r, d)) = super::c02::geometry(&live, (cols, rows)) {
                                return Verdict::Violation { rule: format!("C16/geometry-{}", r), detail: format!("{}: {}", ctx_s, d) };
                            }
                            if en.by_1049 && by_1049_out {
                                let l = en.logical.cur_line;
                                // the position 1049 saves is the last real column when a wrap was
                                // pending (C17), so that is the character the cursor comes back to
                                let off = if en.pending { en.logical.cur_off - 1 } else { en.logical.cur_off };
                                let on_char = en.logical.lines.get(l).map(|x| off < x.len()).unwrap_or(false);
                                let still_there = after.lines.get(l).map(|x| off < x.len()).unwrap_or(false);
                                if on_char && still_there {
                                    st.bump("cursor_same_character_1049_resized");
                                    if (after.cur_line, after.cur_off) != (l, off) {
                                        return Verdict::Violation { rule: "C16/1049-cursor-character".into(), detail: format!("{}: cursor was on character {} of logical line {}, is on {} of line {}", ctx_s, off, l, after.cur_off, after.cur_line) };
                                    }
                                }
                            }
                        }
                    }
                }
                // throughout the excursion: text() keeps reading the primary
                if live.hid.alt {
                    if let Some(en) = &entry {
                        if !live.hid.resized_in_alt {
                            st.bump("text_checked_during_excursion");
                            if live.vt.text() != en.text {
                                return Verdict::Violation { rule: "C16/text-changed-during".into(), detail: format!("event #{}: text() changed while the alternate screen is showing (entered at event #{})", ei, en.event) };
                            }
                        }
                    }
                }
            }
            if excursions == 0 {
                return Verdict::Skip;
            }
            dg.u64(screen_digest(&live.vt));
            Verdict::Pass { digest: dg.0, nontrivial: true }
        });
        match res {
            Ok(v) => v,
            Err(_) => {
                st.bump("runs_abandoned_on_panic");
                Verdict::Skip
            }
        }
    }
    fn meta(&self) -> Meta {
        Meta {
            rule: "primary history (scrollback, saved cursor) -> enter by 47 / 1047 / 1049 -> arbitrary input on the alternate screen (no leave, no RIS) interleaved with resizes (half of the runs) and cursor moves -> leave by any of the three (mixed), 1-2 excursions per run, one character per call (feed_str, or feed() where the schedule says feed loop - which never collects garbage, so a trim can be pending on entry); oracle: on entry the alternate screen is blank in the current pen and has no scrollback; without resize text() is constant throughout, primary lines() identical after return, a 1049/1049 excursion restores the cursor; with resizes the primary's logical lines on return are never altered (at most cut short at the end), geometry holds, and a 1049/1049 excursion puts the cursor on the same character when it was on one; non-trivial = >= 1 excursion judged; distinct = digests of (cursor after return, resized, exit mode, final screen)",
            assumptions: vec!["entry / exit are recognised from the function stream (reference parser look-ahead for the snapshot before entry)", "'current pen' at entry is the tracker's fold of the SGR functions", "runs with resizes use unlimited scrollback (a limit may legitimately trim re-wrapped lines at the top)", "a run in which avt panics is abandoned"],
            real: vec!["avt::Vt", "avt::parser::Parser (lock-step)"],
            simulated: vec!["App (primary history, alternate-screen input)", "Window (resizes during the excursion)"],
            model: vec!["RefParser (look-ahead)", "hidden-state tracker (alternate flag, pen, resized-during-excursion)", "logical-line relation"],
            probes: vec!["events_delivered_by_feed_loop", "pending_trim_ran_on_return", "entries", "excursions_judged", "excursions_without_resize", "excursions_with_resize", "cursor_restored_1049", "cursor_same_character_1049_resized", "text_checked_during_excursion", "resize_during_excursion"],
            fault_kinds: vec!["resize_events", "resize_while_alternate", "resize_mid_sequence"],
        }
    }
}
