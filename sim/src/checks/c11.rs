//! C11 - dump() reproduces the terminal for all future input (snapshot / restart).
use crate::gen::*;
use crate::obs::{build, same_screen, screen_digest};
use crate::rng::Rng;
use crate::runner::*;
use crate::sim::{catch_avt, gen_events_anycut, replay_plain, GenStats, Live, SessionOpts};
use crate::trace::{Config, Event, Trace};
use avt::Vt;

pub struct C11;

/// The probe battery: each probe exposes one hidden state component (Appendix B of DESIGN.md).
pub fn probes(cols: usize, rows: usize) -> Vec<(&'static str, String)> {
    let mut v: Vec<(&'static str, String)> = vec![
        ("immediate", "".into()),
        ("pen+charset+position", "X".into()),
        ("origin+top-margin", "\x1b[1;1HX".into()),
        ("auto-wrap", "\x1b[65535C\x1b[65535CXY".into()),
        ("active-charset", "lq~".into()),
        ("g0", "\x0flq~".into()),
        ("g1", "\x0elq~".into()),
        ("new-line-mode", "\nX".into()),
        ("insert-mode", "\rab\rc".into()),
        ("insert-mode-2", "ab\x1b[1Dc".into()),
        ("saved-ctx-active", "\x1b8X".into()),
        ("saved-ctx-active-origin", "\x1b8\x1b[1;1HX".into()),
        ("saved-ctx-active-autowrap", "\x1b8\x1b[65535C\x1b[65535CXY".into()),
        ("saved-ctx-other-screen", "\x1b[?1047h\x1b8X".into()),
        ("saved-ctx-both", "\x1b[?1047h\x1b8X\x1b[?1047l\x1b8Y".into()),
        ("saved-ctx-other-origin", "\x1b[?1047h\x1b8\x1b[1;1HX\x1b[65535C\x1b[65535CYZ".into()),
        ("return-1047", "\x1b[?1047lQ".into()),
        ("return-1047-restore", "\x1b[?1047l\x1b8Q".into()),
        ("return-1049", "\x1b[?1049lQ".into()),
        ("cursor-visibility", "\x1b[?25hX".into()),
        ("cursor-keys", "\x1b[?1lX".into()),
        ("completion-5m", "5m X".into()),
        ("completion-;7H", ";7HX".into()),
        ("completion-backslash", "\\X".into()),
        ("completion-bel", "\x07X".into()),
        ("completion-st", "\u{9c}X".into()),
        ("completion-q", "qX".into()),
        ("completion-0", "0X".into()),
        ("completion-8", "8X".into()),
        ("completion-h", "hX".into()),
        ("completion-m", "m\x1b[mX".into()),
        ("completion-0-st", "0\x1b\\X".into()),
        ("completion-?7h", "?7hX".into()),
        ("completion-l", "lX".into()),
        ("completion-p", "pX".into()),
        ("completion-space-q", " qX".into()),
        ("completion-;5;1m", ";5;1mX".into()),
        ("completion-:2:3m", ":2:3:4:5mX".into()),
    ];
    v.push(("tab-stops-forward", format!("\r{}X", "\t".repeat(cols / 4 + 2))));
    v.push(("tab-stops-forward-each", format!("\r{}", "\tX".repeat((cols / 8 + 2).min(20)))));
    v.push(("tab-stops-backward", format!("\x1b[65535C\x1b[65535C{}X", "\x1b[Z".repeat(3))));
    v.push(("region-bottom-lf", format!("{}X", "\n".repeat(rows + 1))));
    v.push(("region-top-ri", format!("{}X", "\x1bM".repeat(rows + 1))));
    v.push(("bottom-margin", format!("\x1b[65535B\x1b[65535B{}X", "\n".repeat(2))));
    v.push(("top-margin-abs", format!("\x1b[?6l\x1b[1;1H{}X", "\x1bM".repeat(2))));
    v.push(("bottom-margin-abs", "\x1b[?6l\x1b[65535;1H\x1b[65535B\n\nX".to_string()));
    v.push(("origin-toggle", "\x1b[1;1H\x1b[?6hX".to_string()));
    v.push(("scroll-up-region", "\x1b[2SX".to_string()));
    v
}

fn restore(cols: usize, rows: usize, limit: Option<usize>, dump: &str) -> Vt {
    let mut b = build(cols, rows, limit);
    b.feed_str(dump);
    b
}

impl Check for C11 {
    fn id(&self) -> &'static str {
        "C11"
    }
    fn runs(&self, tier: Tier) -> u64 {
        match tier {
            Tier::Quick => 250_000,
            Tier::Thorough => 3_000_000,
        }
    }
    fn generate(&self, r: &mut Rng, tier: Tier, st: &mut Stats) -> Trace {
        let big = r.chance(1, if tier == Tier::Thorough { 15 } else { 30 });
        let (mc, mr) = if big { (100, 30) } else { (24, 10) };
        let (cols, rows) = gen_size(r, mc, mr);
        let limit = *r.pick(&[None, None, Some(0), Some(5)]);
        let cfg = Config { cols, rows, limit };
        let mut p = Profile::base();
        p.fam[F_PARTIAL] = 3;
        p.fam[F_MODES] = 10;
        p.fam[F_SAVE] = 8;
        p.fam[F_ALT] = 6;
        p.fam[F_TABS] = 5;
        p.fam[F_MARGINS] = 6;
        p.fam[F_CHARSETS] = 5;
        p.fam[F_SGR] = 8;
        if r.chance(1, 2) {
            p = p.swarm(r);
        }
        p.snapshot_pm = 70;
        p.resize_pm = *r.pick(&[0, 40, 100]);
        p.intra_pct = 40;
        p.boost = 3;
        p.huge = false;
        p.max_tokens = if big { 60 } else { 22 };
        let o = SessionOpts { profile: p, max_cols: mc, max_rows: mr };
        let mut gs = GenStats::default();
        let mut evs = gen_events_anycut(r, &cfg, &o, DrainPolicy::AlwaysAll, &mut gs);
        // a final snapshot, possibly after a truncated sequence, and a short continuation
        if r.chance(1, 3) {
            let (_f, tok) = gen_token(r, cols, rows, &o.profile);
            let cs: Vec<char> = tok.chars().collect();
            if cs.len() > 1 {
                let k = 1 + r.usize_below(cs.len() - 1);
                evs.push(Event::FeedStr { s: cs[..k].iter().collect(), drain: crate::trace::Drain::All });
            }
        }
        evs.push(Event::Snapshot);
        gs.snapshots += 1;
        let mut p2 = o.profile.clone();
        p2.resize_pm = 0;
        p2.snapshot_pm = 0;
        p2.max_tokens = 6;
        let (mut c, mut rw) = (cols, rows);
        for e in &evs {
            if let Event::Resize { cols, rows, .. } = e {
                c = *cols;
                rw = *rows;
            }
        }
        let o2 = SessionOpts { profile: p2, max_cols: mc, max_rows: mr };
        let cfg2 = Config { cols: c, rows: rw, limit };
        evs.extend(gen_events_anycut(r, &cfg2, &o2, DrainPolicy::AlwaysAll, &mut gs));
        super::record_gen(st, &gs);
        super::count_events(st, &evs);
        let mut t = Trace::new("C11", cfg);
        t.events = evs;
        t
    }
    fn execute(&self, t: &Trace, st: &mut Stats, ctx: &Ctx) -> Verdict {
        let mut live = match catch_avt(|| Live::new(&t.config)) {
            Ok(l) => l,
            Err(_) => return Verdict::Skip,
        };
        let mut judged = 0u64;
        let mut known: Option<String> = None;
        let mut dg = crate::rng::Digest::new();
        for (i, e) in t.events.iter().enumerate() {
            if !matches!(e, Event::Snapshot) {
                if catch_avt(|| {
                    live.apply(e);
                })
                .is_err()
                {
                    st.bump("runs_abandoned_on_panic");
                    return if judged > 0 { Verdict::Pass { digest: dg.0, nontrivial: true } } else { Verdict::Skip };
                }
                continue;
            }
            // ---- snapshot / restart ----
            let (cols, rows) = live.vt.size();
            let cur = live.vt.cursor();
            let zone_a_wide = live.hid.origin && (cur.row < live.hid.top || cur.row > live.hid.bottom);
            let sv = live.hid.saved[live.hid.alt as usize];
            // Known finding F4, identified by the state in which dump()'s workaround for "origin mode
            // on, cursor outside the scroll region" (CSI u, then relative moves) cannot reproduce the
            // terminal: CSI u brings back the saved context's origin / auto-wrap modes, so they must
            // agree with the current ones (auto-wrap off can still be re-established afterwards), and
            // the relative vertical move from the saved row is clamped by the margins unless it starts
            // on the same side outside the region. Every other snapshot in that zone must restore.
            let modes_lost = !sv.origin || (!sv.awm && live.hid.awm);
            let reachable = cur.row == sv.row || (cur.row < sv.row && sv.row < live.hid.top) || (cur.row > sv.row && sv.row > live.hid.bottom);
            let zone_a = zone_a_wide && (modes_lost || !reachable);
            if zone_a_wide && !zone_a {
                st.bump("origin_outside_region_expected_to_restore");
            }
            let zone_b = live.hid.alt && live.hid.resized_in_alt;
            let pstate = live.parser.state;
            let limit = t.config.limit;
            let prefix = &t.events[..i];
            // continuation: the actual remainder of the session up to the next resize
            let mut cont: Vec<&Event> = vec![];
            for e2 in &t.events[i + 1..] {
                match e2 {
                    Event::Resize { .. } => break,
                    Event::Snapshot | Event::Observe => {}
                    _ => cont.push(e2),
                }
            }
            let verdict = catch_avt(|| -> Result<Option<(String, String)>, String> {
                let d = live.vt.dump();
                // restart: only the dump survives
                let restored = catch_avt(|| restore(cols, rows, limit, &d)).map_err(|p| format!("restoring from the dump panicked: {}", p))?;
                if let Some(diff) = same_screen(&live.vt, &restored) {
                    return Ok(Some(("immediate".into(), diff)));
                }
                // probe battery on forks
                for (name, p) in probes(cols, rows) {
                    if p.is_empty() {
                        continue;
                    }
                    let mut a = replay_plain(&t.config, prefix);
                    a.feed_str(&p);
                    let b = catch_avt(|| {
                        let mut b = restore(cols, rows, limit, &d);
                        b.feed_str(&p);
                        b
                    })
                    .map_err(|pm| format!("probe {:?} panicked on the restored terminal only: {}", p, pm))?;
                    if let Some(diff) = same_screen(&a, &b) {
                        return Ok(Some((format!("probe-{}", name), format!("probe {:?}: {}", p, diff))));
                    }
                }
                // the actual remainder of the session, in lock-step
                if !cont.is_empty() {
                    let mut a = replay_plain(&t.config, prefix);
                    let mut b = restore(cols, rows, limit, &d);
                    for (k, e2) in cont.iter().enumerate() {
                        Live::apply_plain(&mut a, e2);
                        catch_avt(|| Live::apply_plain(&mut b, e2)).map_err(|pm| format!("continuation event {} panicked on the restored terminal only: {}", k, pm))?;
                        if let Some(diff) = same_screen(&a, &b) {
                            return Ok(Some(("continuation".into(), format!("after continuation event {} ({}): {}", k, crate::trace::event_brief(e2).chars().take(50).collect::<String>(), diff))));
                        }
                    }
                }
                // second generation: dump the restored instance and restore again
                let d2 = catch_avt(|| restored.dump()).map_err(|pm| format!("dump() of the restored terminal panicked: {}", pm))?;
                let r2 = catch_avt(|| restore(cols, rows, limit, &d2)).map_err(|pm| format!("second-generation restore panicked: {}", pm))?;
                if let Some(diff) = same_screen(&live.vt, &r2) {
                    return Ok(Some(("second-generation-immediate".into(), diff)));
                }
                for (name, p) in probes(cols, rows) {
                    if p.is_empty() {
                        continue;
                    }
                    let mut a = replay_plain(&t.config, prefix);
                    a.feed_str(&p);
                    let mut b = restore(cols, rows, limit, &d2);
                    b.feed_str(&p);
                    if let Some(diff) = same_screen(&a, &b) {
                        return Ok(Some((format!("second-generation-probe-{}", name), format!("probe {:?}: {}", p, diff))));
                    }
                }
                Ok(None)
            });
            let outcome = match verdict {
                Err(_) => {
                    // the original side panicked (dump / fork / probe on the original): C01's subject
                    st.bump("runs_abandoned_on_panic");
                    return if judged > 0 { Verdict::Pass { digest: dg.0, nontrivial: true } } else { Verdict::Skip };
                }
                Ok(Err(msg)) => Some(("panic-restored-side".to_string(), msg)),
                Ok(Ok(x)) => x,
            };
            judged += 1;
            st.bump("snapshots_judged");
            if pstate != avt::parser::State::Ground {
                st.bump("snapshot_parser_not_ground");
            }
            if live.hid.alt {
                st.bump("snapshot_on_alternate");
            }
            if cur.col >= cols {
                st.bump("snapshot_wrap_pending");
            }
            if !cur.visible {
                st.bump("snapshot_cursor_hidden");
            }
            if live.hid.top > 0 || live.hid.bottom < rows - 1 {
                st.bump("snapshot_with_margins");
            }
            if live.hid.saved[0] != Default::default() && live.hid.saved[1] != Default::default() {
                st.bump("snapshot_both_saved_contexts");
            }
            if live.hid.tabs != (1..cols).filter(|c| c % 8 == 0).collect() {
                st.bump("snapshot_custom_tabs");
            }
            if !cont.is_empty() {
                st.bump("snapshot_with_continuation");
            }
            dg.u64(screen_digest(&live.vt));
            dg.u64(pstate as u64);
            if let Some((rule, detail)) = outcome {
                if zone_a && ctx.open_matchers.contains("c11_origin_mode_cursor_outside_region") {
                    known = Some("c11_origin_mode_cursor_outside_region".into());
                    st.bump("known_zone_origin_outside_region");
                } else if zone_b && ctx.open_matchers.contains("c11_resized_while_alternate") {
                    known = Some("c11_resized_while_alternate".into());
                    st.bump("known_zone_resized_while_alternate");
                } else {
                    return Verdict::Violation {
                        rule: format!("C11/{}", rule),
                        detail: format!("snapshot at event #{} ({}x{}, parser {:?}, alternate={}, origin={}, margins {}..{}, cursor {},{}): {}", i, cols, rows, pstate, live.hid.alt, live.hid.origin, live.hid.top, live.hid.bottom, cur.col, cur.row, detail),
                    };
                }
            } else {
                if zone_a {
                    st.bump("zone_origin_outside_region_but_equal");
                }
                if zone_b {
                    st.bump("zone_resized_while_alternate_but_equal");
                }
            }
        }
        if let Some(k) = known {
            return Verdict::Known { finding: k };
        }
        if judged == 0 {
            return Verdict::Skip;
        }
        Verdict::Pass { digest: dg.0, nontrivial: true }
    }
    fn meta(&self) -> Meta {
        Meta {
            rule: "full histories (all functions, modes, margins, tabs, charsets, pens, saved contexts on both screens, alternate screen, resizes, partial tokens) with snapshots at any character position; restart = fresh Vt of the current size fed dump(); judged behaviourally: (1) visible cells, pens, marks, cursor, visibility, cursor-key mode, (2) ~48 probes on forks (fork = replay of the event prefix), (3) the actual remainder of the session in lock-step, (5) second-generation restart with the same probes; non-trivial = every judged snapshot; distinct = digests of (screen, parser state) at the snapshots",
            assumptions: vec!["continuations contain no resize (scrollback is not part of the dump)", "dump text is never compared", "known findings F4 / F5 are attributed by state predicates evaluated at snapshot time from the hidden-state tracker (origin mode and cursor row outside the region; alternate active and resized during this excursion)", "a panic on the original side is C01's subject; a panic on the restored side only is a violation"],
            real: vec!["avt::Vt (original, forks, restored instances)", "avt::parser::Parser (lock-step)"],
            simulated: vec!["App", "Pipe (cuts, truncation)", "Window", "Snapshotter (crash/restart with only the dump surviving)"],
            model: vec!["hidden-state tracker (origin, margins, alternate, resized-during-excursion: matchers and probes only)"],
            probes: vec!["snapshots_judged", "snapshot_parser_not_ground", "snapshot_on_alternate", "snapshot_wrap_pending", "snapshot_cursor_hidden", "snapshot_with_margins", "snapshot_both_saved_contexts", "snapshot_custom_tabs", "snapshot_with_continuation"],
            fault_kinds: vec!["snapshot_events", "snapshot_mid_sequence", "resize_events", "resize_while_alternate", "env_events_inside_token", "feed_char_calls"],
        }
    }
}
