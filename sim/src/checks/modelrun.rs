//! Shared harness of the refinement checks C04, C05, C06: the real terminal is fed one character
//! per call and observed after each; for a function that is a *target* of the property the
//! observed post-state must equal `step(pre, f)` of the reference model (pre = the observed state
//! + the model's hidden state); for every other function only the hidden state is stepped and the
//! observable state is adopted.
use crate::gen::*;
use crate::model::term::Model;
use crate::obs::{build, observe, Obs};
use crate::rng::Rng;
use crate::runner::*;
use crate::sim::{catch_avt, gen_events_anycut, GenStats, SessionOpts};
use crate::trace::{Config, Event, Trace};
use avt::parser::{DecMode, Function, Parser};

#[derive(Clone, Copy, PartialEq, Eq, Debug)]
pub enum Target {
    Print,
    Cursor,
    Scroll,
}

impl Target {
    pub fn id(&self) -> &'static str {
        match self {
            Target::Print => "C04",
            Target::Cursor => "C05",
            Target::Scroll => "C06",
        }
    }
}

pub fn classify(f: &Function, m: &Model) -> Option<Target> {
    use Function::*;
    match f {
        Print(_) | Rep(_) => Some(Target::Print),
        Cuu(_) | Cud(_) | Cuf(_) | Cub(_) | Cnl(_) | Cpl(_) | Vpr(_) | Bs | Cr | Ht | Cht(_) | Cbt(_) | Cup(..) | Cha(_) | Vpa(_) => Some(Target::Cursor),
        Lf | Nel => {
            if m.row == m.bottom {
                Some(Target::Scroll)
            } else {
                Some(Target::Cursor)
            }
        }
        Ri => {
            if m.row == m.top {
                Some(Target::Scroll)
            } else {
                Some(Target::Cursor)
            }
        }
        Su(_) | Sd(_) | Il(_) | Dl(_) => Some(Target::Scroll),
        Decstbm(..) => Some(Target::Cursor),
        Decset(ms) | Decrst(ms) if ms.len() == 1 && matches!(ms[0], DecMode::Origin) => Some(Target::Cursor),
        _ => None,
    }
}

fn fname(f: &Function) -> &'static str {
    use Function::*;
    match f {
        Print(_) => "print",
        Rep(_) => "rep",
        Cuu(_) => "cuu",
        Cud(_) => "cud",
        Cuf(_) => "cuf",
        Cub(_) => "cub",
        Cnl(_) => "cnl",
        Cpl(_) => "cpl",
        Vpr(_) => "vpr",
        Bs => "bs",
        Cr => "cr",
        Ht => "ht",
        Cht(_) => "cht",
        Cbt(_) => "cbt",
        Cup(..) => "cup",
        Cha(_) => "cha",
        Vpa(_) => "vpa",
        Lf => "lf",
        Nel => "nel",
        Ri => "ri",
        Su(_) => "su",
        Sd(_) => "sd",
        Il(_) => "il",
        Dl(_) => "dl",
        Decstbm(..) => "decstbm",
        Decset(_) => "decom-set",
        Decrst(_) => "decom-reset",
        _ => "other",
    }
}

fn fcode(f: &Function) -> u64 {
    crate::rng::fnv1a(fname(f).as_bytes())
}

pub fn apply_tolerances(m: &Model, before: &Model, exp: &mut Obs, o: &Obs) {
    for t in m.tolerate.iter() {
        match *t {
            "cursor" => {
                exp.col = o.col;
                exp.row = o.row;
            }
            "view" => {
                exp.view = o.view.clone();
                exp.above = o.above.clone();
            }
            "above" => {
                exp.above = o.above.clone();
            }
            "wrapmarks" => {
                for (a, b) in exp.view.iter_mut().zip(o.view.iter()) {
                    a.wrapped = b.wrapped;
                }
            }
            "wrapmark_cursor_row" => {
                let r0 = before.row;
                if r0 < exp.view.len() && r0 < o.view.len() {
                    exp.view[r0].wrapped = o.view[r0].wrapped;
                }
            }
            "wrapmark_left_row" => {
                // the row left by the wrap: now at bottom-1 (or the newest scrollback row if top == 0)
                let b = before.bottom;
                if b >= 1 && b - 1 < exp.view.len() && b - 1 < o.view.len() {
                    exp.view[b - 1].wrapped = o.view[b - 1].wrapped;
                }
                if let (Some(a), Some(bb)) = (exp.above.last_mut(), o.above.last()) {
                    a.wrapped = bb.wrapped;
                }
            }
            _ => {}
        }
    }
}

fn describe_diff(exp: &Obs, o: &Obs) -> (String, String) {
    if (exp.col, exp.row) != (o.col, o.row) {
        return ("cursor".into(), format!("cursor expected ({},{}) got ({},{})", exp.col, exp.row, o.col, o.row));
    }
    if exp.view.len() != o.view.len() {
        return ("view".into(), format!("view rows {} vs {}", exp.view.len(), o.view.len()));
    }
    for (i, (a, b)) in exp.view.iter().zip(o.view.iter()).enumerate() {
        if a.cells != b.cells {
            let j = a.cells.iter().zip(b.cells.iter()).position(|(x, y)| x != y).unwrap_or(0);
            let kind = if a.cells.get(j).map(|c| c.ch) != b.cells.get(j).map(|c| c.ch) { "cells" } else { "pen" };
            return (kind.into(), format!("row {} col {}: expected {:?} got {:?} (row expected {:?} got {:?})", i, j, a.cells.get(j), b.cells.get(j), a.text(), b.text()));
        }
        if a.wrapped != b.wrapped {
            return ("wrapmark".into(), format!("row {} soft-wrap mark expected {} got {}", i, a.wrapped, b.wrapped));
        }
    }
    if exp.above != o.above {
        return ("scrollback".into(), format!("scrollback expected {} lines got {} (or content differs)", exp.above.len(), o.above.len()));
    }
    if exp.visible != o.visible {
        return ("visible".into(), "cursor visibility".into());
    }
    if exp.appkeys != o.appkeys {
        return ("appkeys".into(), "cursor-key mode".into());
    }
    ("other".into(), "size".into())
}

pub fn generate(target: Target, r: &mut Rng, tier: Tier, st: &mut Stats) -> Trace {
    let big = tier == Tier::Thorough && r.chance(1, 25);
    let (mc, mr) = if big { (80, 24) } else { (20, 10) };
    let (cols, rows) = gen_size(r, mc, mr);
    // cursor addressing on gigantic screens (parameters beyond 9999 / beyond 16 bits) - only for the
    // cursor target: its sessions are short and need no long text
    let (cols, rows) = if target == Target::Cursor {
        if r.chance(1, 400) {
            gigantic_size(r)
        } else {
            maybe_gigantic(r, (cols, rows))
        }
    } else {
        (cols, rows)
    };
    // scrolling regions on screens taller than the 16-bit range (one or two columns wide)
    let (cols, rows) = if target == Target::Scroll && r.chance(1, 4000) { (1 + r.usize_below(2), *r.pick(&[65_535usize, 65_536, 65_537, 70_000])) } else { (cols, rows) };
    // C06 also runs with small scrollback limits: what the terminal no longer retains must have been
    // handed out through Changes.scrollback of the call that trimmed it
    let limit = if target == Target::Scroll && r.chance(1, 4) { *r.pick(&[Some(0usize), Some(1), Some(3), Some(10)]) } else { None };
    let cfg = Config { cols, rows, limit };
    let mut p = Profile::base();
    match target {
        Target::Print => {
            p.fam[F_TEXT] = 45;
            p.fam[F_MODES] = 12;
            p.fam[F_CHARSETS] = 8;
            p.fam[F_MARGINS] = 6;
            p.fam[F_CURABS] = 10;
            p.fam[F_EDIT] = 6;
            p.fam[F_SGR] = 8;
        }
        Target::Cursor => {
            p.fam[F_TEXT] = 12;
            p.fam[F_C0] = 16;
            p.fam[F_CURREL] = 30;
            p.fam[F_CURABS] = 16;
            p.fam[F_MARGINS] = 12;
            p.fam[F_MODES] = 12;
            p.fam[F_TABS] = 8;
            p.fam[F_SCROLL] = 8;
        }
        Target::Scroll => {
            p.fam[F_TEXT] = 20;
            p.fam[F_C0] = 16;
            p.fam[F_SCROLL] = 30;
            p.fam[F_MARGINS] = 12;
            p.fam[F_CURABS] = 10;
            p.fam[F_SGR] = 8;
            p.fam[F_ALT] = 6;
            p.fam[F_MODES] = 6;
        }
    }
    if r.chance(1, 2) {
        p = p.swarm(r);
    }
    p.fam[F_STRINGS] = p.fam[F_STRINGS].min(1);
    p.huge = true;
    p.resize_pm = *r.pick(&[0, 40, 100]);
    p.intra_pct = 30;
    p.max_tokens = if big { 60 } else { 25 };
    let o = SessionOpts { profile: p, max_cols: mc, max_rows: mr };
    let mut gs = GenStats::default();
    let mut evs = gen_events_anycut(r, &cfg, &o, DrainPolicy::AlwaysAll, &mut gs);
    if cols * rows > 20_000 && r.chance(2, 3) {
        // on a gigantic screen the far edge is out of reach of a single parameter: start there
        let pre = match target {
            Target::Cursor | Target::Print if cols > rows => {
                st.bump("gigantic_start_wrap_pending_at_far_right");
                // ... followed at once (wrap still pending) by a cursor function with an extreme count
                let follow = if r.chance(2, 3) { format!("\x1b[{}{}", r.pick(&["65535", "65535", "65534", "65536", "4464", "4465", "1", ""]), r.pick(&['D', 'D', 'C', 'G', '`', 'a', 'Z', 'I', 'A', 'E', 'F'])) } else { String::new() };
                format!("\x1b[65535G\x1b[65535Cx{}", follow)
            }
            Target::Cursor | Target::Print => {
                let follow = if r.chance(2, 3) { format!("\x1b[{}{}", r.pick(&["65535", "65535", "65534", "65536", "4464", "4465", "1", ""]), r.pick(&['A', 'A', 'B', 'd', 'e', 'F', 'E', 'H'])) } else { String::new() };
                format!("\x1b[65535d\x1b[65535B{}", follow)
            }
            Target::Scroll => {
                st.bump("gigantic_start_region_with_default_bottom");
                format!("\x1b[{}r\x1b[65535d\x1b[65535B{}", r.pick(&["", "3", "2;0", "2;"]), r.pick(&["", "\n", "\x1bD", "x\n"]))
            }
        };
        evs.insert(0, Event::FeedStr { s: pre, drain: crate::trace::Drain::All });
    }
    super::record_gen(st, &gs);
    let mut t = Trace::new(target.id(), cfg);
    t.events = evs;
    t
}

pub fn execute(target: Target, t: &Trace, st: &mut Stats, ctx: &Ctx) -> Verdict {
    if t.config.limit.is_some() && target != Target::Scroll {
        return Verdict::Skip;
    }
    let limit = t.config.limit;
    let id = target.id();
    let res = catch_avt(|| -> Verdict {
        let mut vt = build(t.config.cols, t.config.rows, limit);
        // the same events delivered with their original call structure (multi-character feed_str
        // calls, feed() loops): what holds per character must hold for any grouping into calls
        let mut vt2 = build(t.config.cols, t.config.rows, limit);
        let mut parser = Parser::new();
        let mut m = Model::new(t.config.cols, t.config.rows, true);
        let mut refp = crate::model::parser::RefParser::new();
        let mut target_steps = 0u64;
        let mut after_resize = false;
        let mut dg = crate::rng::Digest::new();
        let mut known: Option<String> = None;
        for (ei, e) in t.events.iter().enumerate() {
            let s = match e {
                Event::Resize { cols, rows, .. } => {
                    let pre = vt.cursor();
                    let (pc, _pr) = vt.size();
                    vt.resize(*cols, *rows);
                    if target == Target::Print && pre.col == pc && *cols == pc {
                        // the wrap-pending position is a print state: only a width change ends it
                        st.bump("height_only_resize_while_wrap_pending");
                        if vt.cursor().col != pc {
                            return Verdict::Violation {
                                rule: format!("{}/resize-drops-wrap-pending", id),
                                detail: format!("event #{}: resize {}x? -> {}x{} (width unchanged) while a wrap was pending moved the cursor column from {} to {}", ei, pc, cols, rows, pre.col, vt.cursor().col),
                            };
                        }
                    }
                    m.resize_hidden(*cols, *rows);
                    let o = observe(&vt);
                    m.adopt(&o);
                    after_resize = true;
                    vt2.resize(*cols, *rows);
                    continue;
                }
                Event::FeedStr { s, .. } | Event::Feed { s } | Event::Inert { s, .. } => s,
                _ => continue,
            };
            let mut buf = [0u8; 4];
            let by_feed = matches!(e, Event::Feed { .. });
            if by_feed {
                st.bump("events_delivered_by_feed_loop");
            }
            for ch in s.chars() {
                let f = parser.feed(ch);
                let rf = refp.feed(ch);
                // one character per call: feed() where the schedule says feed loop, else feed_str
                // rows the call handed out (only under a limit): together with what is retained they
                // are the scrollback the model predicts
                let mut drained: Vec<crate::obs::MRow> = vec![];
                if by_feed {
                    vt.feed(ch);
                } else {
                    let chg = vt.feed_str(ch.encode_utf8(&mut buf));
                    if limit.is_some() {
                        drained = chg.scrollback.map(|l| crate::obs::conv_line(&l)).collect();
                        if !drained.is_empty() {
                            st.bump("steps_with_rows_handed_out");
                        }
                    }
                }
                let with_drained = |o: &Obs| -> Obs {
                    let mut c = o.clone();
                    if !drained.is_empty() {
                        let mut a = drained.clone();
                        a.extend(c.above.into_iter());
                        c.above = a;
                    }
                    c
                };
                if target == Target::Print {
                    // "each printable character is written": a character the state machine of the
                    // statement prints (ground state, 0x20-0x7F or >= U+00A0) must reach the terminal
                    if let Some(crate::model::parser::RF::Print(c)) = &rf {
                        if !matches!(&f, Some(Function::Print(d)) if d == c) {
                            return Verdict::Violation {
                                rule: format!("{}/printable-not-printed", id),
                                detail: format!("event #{}: the printable character {:?} (U+{:04X}) arrived in ground state but was dispatched as {:?}", ei, c, *c as u32, f),
                            };
                        }
                    }
                }
                let Some(f) = f else {
                    if !drained.is_empty() {
                        // a call without a function can still run a trim that feed() calls left pending
                        let o = observe(&vt);
                        m.adopt(&o);
                    }
                    continue;
                };
                let cls = classify(&f, &m);
                // C06 names "auto-wrap on the bottom margin" among the causes of scrolling: a print
                // that wraps there is judged as a scroll too (the rows of the region shift by one)
                let wrap_scroll = target == Target::Scroll && matches!(f, Function::Print(_)) && m.awm && m.col >= m.cols && m.row == m.bottom;
                if wrap_scroll {
                    st.bump("auto_wrap_scrolls_on_bottom_margin");
                    if m.bottom + 1 < m.rows {
                        st.bump("auto_wrap_scrolls_on_inner_bottom_margin");
                    }
                }
                if cls != Some(target) && !wrap_scroll {
                    // not this property's operation: hidden state only, observable state adopted
                    let pre_above_len = m.above.len();
                    let was_alt = m.alt;
                    // LF / IND / NEL off the bottom margin, RI off the top margin and every other
                    // cursor command do not scroll (C06: scrolling happens only on the margins)
                    let pre_grid = if target == Target::Scroll && cls == Some(Target::Cursor) { Some(m.view.clone()) } else { None };
                    m.step(&f);
                    let o = observe(&vt);
                    if (o.cols, o.rows) != (m.cols, m.rows) {
                        m.resize_hidden(o.cols, o.rows);
                        m.adopt(&o);
                        continue;
                    }
                    let o_full_len = o.above.len() + drained.len();
                    if let Some(pv) = pre_grid {
                        st.bump("off_margin_moves_checked_for_scrolling");
                        let moved = o.view.len() != pv.len() || o.view.iter().zip(pv.iter()).any(|(a, b)| a.cells != b.cells) || o_full_len != pre_above_len;
                        if moved {
                            return Verdict::Violation {
                                rule: format!("{}/{}-scrolled-off-margin", id, fname(&f)),
                                detail: format!("event #{} function {:?} with the cursor at row {} (margins {}..{}, {} rows): rows or scrollback changed although the cursor was not on the margin", ei, f, m.row, m.top, m.bottom, m.rows),
                            };
                        }
                    }
                    if target == Target::Scroll && cls.is_none() && !was_alt && !m.alt {
                        // "no other control function adds to the scrollback" (printing that wraps on
                        // the bottom margin is C04's, buffer switches and RIS replace the screen,
                        // ED 3 is tolerated)
                        let exempt = matches!(f, Function::Decset(_) | Function::Decrst(_) | Function::Ris | Function::Ed(avt::parser::EdScope::SavedLines));
                        if !exempt {
                            st.bump("non_scrolling_functions_checked_for_scrollback");
                            if o_full_len != pre_above_len {
                                return Verdict::Violation {
                                    rule: format!("{}/non-scrolling-function-changed-scrollback", id),
                                    detail: format!("event #{} function {:?}: scrollback went from {} to {} lines", ei, f, pre_above_len, o_full_len),
                                };
                            }
                        }
                    }
                    m.adopt(&o);
                    continue;
                }
                let before = m.clone();
                let predictable = m.step(&f);
                let o = observe(&vt);
                if (o.cols, o.rows) != (m.cols, m.rows) {
                    // the terminal changed its size on its own (in-stream resize): follow it
                    m.resize_hidden(o.cols, o.rows);
                    m.adopt(&o);
                    continue;
                }
                if !predictable {
                    m.adopt(&o);
                    continue;
                }
                let mut exp = m.obs();
                let o_ret = o;
                let o = with_drained(&o_ret);
                apply_tolerances(&m, &before, &mut exp, &o);
                // (the alternate screen keeps no scrollback: with one feed_str per character the
                // model's empty scrollback is exact there too)
                target_steps += 1;
                // strata (reach probes): function x column class x row class x modes x size class
                let colc = if before.col == 0 { 0 } else if before.col >= before.cols { 3 } else if before.col == before.cols - 1 { 2 } else { 1 };
                let rowc = if before.row < before.top { 0 } else if before.row == before.top { 1 } else if before.row < before.bottom { 2 } else if before.row == before.bottom { 3 } else { 4 };
                let sizec = if before.cols == 1 && before.rows == 1 { 0 } else if before.cols == 1 { 1 } else if before.rows == 1 { 2 } else if before.cols <= 4 && before.rows <= 4 { 3 } else { 4 };
                let key = fcode(&f) ^ (colc as u64) << 1 ^ (rowc as u64) << 4 ^ (before.origin as u64) << 8 ^ (before.awm as u64) << 9 ^ (before.insert as u64) << 10 ^ (sizec as u64) << 11 ^ (before.alt as u64) << 15 ^ (after_resize as u64) << 16;
                st.1.insert(key);
                dg.u64(key);
                match target {
                    Target::Print => {
                        if before.col >= before.cols && before.awm {
                            st.bump("print_from_wrap_pending");
                        }
                        if before.insert && before.col + 1 >= before.cols {
                            st.bump("insert_mode_at_last_column");
                        }
                        if before.col >= before.cols && !before.awm {
                            st.bump("wrap_pending_with_autowrap_off");
                        }
                        if before.drawing[before.active] {
                            st.bump("print_under_drawing_set");
                        }
                        if before.cols == 1 {
                            st.bump("print_on_one_column_screen");
                        }
                        if before.col >= before.cols && before.row == before.bottom && before.bottom < before.rows - 1 {
                            st.bump("wrap_on_inner_bottom_margin");
                        }
                        if before.col >= before.cols && before.row == before.rows - 1 && before.row > before.bottom {
                            st.bump("wrap_on_last_row_below_region");
                        }
                        if matches!(f, Function::Rep(_)) {
                            st.bump("rep_steps");
                        }
                    }
                    Target::Cursor => {
                        if before.origin {
                            st.bump("cursor_step_origin_mode");
                        }
                        if before.row < before.top || before.row > before.bottom {
                            st.bump("cursor_step_outside_region");
                        }
                        if before.col >= before.cols {
                            st.bump("cursor_step_from_wrap_pending");
                        }
                        if matches!(f, Function::Ri) {
                            st.bump("ri_off_margin");
                        }
                    }
                    Target::Scroll => {
                        if before.top > 0 || before.bottom < before.rows - 1 {
                            st.bump("scroll_with_region");
                        }
                        if before.alt {
                            st.bump("scroll_on_alternate");
                        }
                        if before.top == 0 && before.bottom < before.rows - 1 {
                            st.bump("scroll_top_anchored_partial");
                        }
                        if before.pen.bg.is_some() {
                            st.bump("scroll_with_background_pen");
                        }
                        if before.row < before.top || before.row > before.bottom {
                            st.bump("scroll_cursor_outside_region");
                        }
                    }
                }
                if after_resize {
                    st.bump("target_steps_after_a_resize");
                }
                let bad = match target {
                    Target::Cursor => {
                        // cursor as predicted; nothing else changes
                        let pre = before.obs();
                        if (exp.col, exp.row) != (o.col, o.row) {
                            Some(("cursor".to_string(), format!("cursor expected ({},{}) got ({},{})", exp.col, exp.row, o.col, o.row)))
                        } else if o.view.iter().zip(pre.view.iter()).any(|(a, b)| a.cells != b.cells) || o.view.len() != pre.view.len() {
                            Some(("cells-changed".to_string(), "a cursor command changed cells".to_string()))
                        } else if o.above != pre.above {
                            Some(("scrollback-changed".to_string(), "a cursor command changed the scrollback".to_string()))
                        } else if exp.view != o.view {
                            Some(("wrapmark".to_string(), "a cursor command changed a soft-wrap mark".to_string()))
                        } else {
                            None
                        }
                    }
                    _ => {
                        if exp != o {
                            Some(describe_diff(&exp, &o))
                        } else {
                            None
                        }
                    }
                };
                if let Some((rule, detail)) = bad {
                    // known findings (by state predicate)
                    if target == Target::Cursor && matches!(f, Function::Ri) && before.origin && ctx.open_matchers.contains("c05_ri_under_origin_mode") {
                        known = Some("c05_ri_under_origin_mode".into());
                        m.adopt(&o_ret);
                        continue;
                    }
                    return Verdict::Violation {
                        rule: format!("{}/{}-{}", id, fname(&f), rule),
                        detail: format!(
                            "event #{} function {:?} on {}x{} (cursor {},{} margins {}..{} origin={} awm={} insert={} alt={}): {}",
                            ei, f, before.cols, before.rows, before.col, before.row, before.top, before.bottom, before.origin, before.awm, before.insert, before.alt, detail
                        ),
                    };
                }
                m.adopt(&o_ret);
            }
            // the event with its original call structure on the twin
            match e {
                Event::Feed { s } => {
                    for ch in s.chars() {
                        vt2.feed(ch);
                    }
                }
                Event::FeedStr { s, .. } | Event::Inert { s, .. } => {
                    vt2.feed_str(s);
                }
                _ => {}
            }
            // (under a limit the two deliveries may legitimately retain different amounts of
            // scrollback - C12 exempts lines() there - and a later resize can expose that)
            if limit.is_some() {
                continue;
            }
            if let Some(d) = crate::obs::same_screen(&vt, &vt2) {
                return Verdict::Violation { rule: format!("{}/call-structure", id), detail: format!("event #{}: the event delivered as one call and character by character give different screens: {}", ei, d) };
            }
            if !by_feed && limit.is_none() && vt.lines() != vt2.lines() {
                return Verdict::Violation { rule: format!("{}/call-structure", id), detail: format!("event #{}: lines() differ between one call ({} lines) and character-by-character delivery ({} lines)", ei, vt2.lines().len(), vt.lines().len()) };
            }
            st.bump("call_structure_twin_compared");
        }
        st.add("target_steps", target_steps);
        if let Some(k) = known {
            return Verdict::Known { finding: k };
        }
        if target_steps == 0 {
            return Verdict::Skip;
        }
        Verdict::Pass { digest: dg.0, nontrivial: true }
    });
    match res {
        Ok(v) => v,
        Err(_) => {
            st.bump("runs_abandoned_on_panic");
            Verdict::Skip
        }
    }
}
