//! C15 - changed-line reports are sound.
use crate::obs::screen_digest;
use crate::rng::Rng;
use crate::runner::*;
use crate::sim::{catch_avt, Live};
use crate::trace::{Event, Trace};
use avt::parser::Function;
use avt::Line;

pub struct C15;

impl Check for C15 {
    fn id(&self) -> &'static str {
        "C15"
    }
    fn runs(&self, tier: Tier) -> u64 {
        match tier {
            Tier::Quick => 1_000_000,
            Tier::Thorough => 20_000_000,
        }
    }
    fn generate(&self, r: &mut Rng, tier: Tier, st: &mut Stats) -> Trace {
        super::chaos_trace(r, tier, "C15", st)
    }
    fn execute(&self, t: &Trace, st: &mut Stats, _ctx: &Ctx) -> Verdict {
        let res = catch_avt(|| {
            let mut live = Live::new(&t.config);
            // window start: the view when the terminal last reported its changed lines. A fresh
            // terminal reports every row on its first call, so the initial baseline is "nothing".
            let mut baseline: Vec<Line> = vec![];
            let mut windows = 0u64;
            let mut changed_rows = 0u64;
            for (i, e) in t.events.iter().enumerate() {
                let rep = live.apply(e);
                if matches!(e, Event::Snapshot) {
                    let _ = live.vt.dump();
                }
                let Some(reported) = &rep.lines else { continue };
                windows += 1;
                let view = live.vt.view();
                let mut local_changed = 0;
                for (row, l) in view.iter().enumerate() {
                    let differs = match baseline.get(row) {
                        None => true,
                        Some(b) => b.cells() != l.cells(),
                    };
                    if differs {
                        local_changed += 1;
                        if !reported.contains(&row) {
                            let what = match baseline.get(row) {
                                None => "is new".to_string(),
                                Some(b) => format!("changed from {:?} to {:?}", b, l),
                            };
                            return Verdict::Violation {
                                rule: "C15/unreported-row".into(),
                                detail: format!("event #{} ({}): row {} {} but Changes.lines = {:?}", i, crate::trace::event_brief(e).chars().take(60).collect::<String>(), row, what, reported),
                            };
                        }
                    }
                }
                changed_rows += local_changed;
                if local_changed > 0 {
                    st.bump("calls_with_changed_rows");
                    let muts = rep.funcs.iter().filter(|f| !matches!(f, Function::Sgr(_) | Function::Cr | Function::Cup(..))).count();
                    if muts == 1 {
                        st.bump("calls_with_single_function");
                    }
                }
                if rep.funcs.iter().any(|f| matches!(f, Function::Ris)) {
                    st.bump("calls_with_ris");
                }
                if rep.funcs.iter().any(|f| matches!(f, Function::Decset(_) | Function::Decrst(_))) {
                    st.bump("calls_with_mode_switch");
                }
                if matches!(e, Event::Resize { .. }) {
                    st.bump("resize_calls");
                }
                baseline = view.to_vec();
            }
            st.add("rows_changed", changed_rows);
            Verdict::Pass { digest: screen_digest(&live.vt), nontrivial: windows > 0 && changed_rows > 0 }
        });
        match res {
            Ok(v) => v,
            Err(_) => {
                st.bump("runs_abandoned_on_panic");
                Verdict::Skip
            }
        }
    }
    fn meta(&self) -> Meta {
        Meta {
            rule: "chaos sessions (incl. damage); a window runs from one feed_str/resize return to the next (feed(char) calls in between accumulate); every visible row that is new or whose cells differ between window start and end must be in Changes.lines; non-trivial = at least one window with a changed row; distinct = final-screen digests",
            assumptions: vec!["cells (char + pen) are compared; a row whose only change is its soft-wrap mark is not a cell change", "a run in which avt panics is abandoned (C01's subject)"],
            real: vec!["avt::Vt", "avt::parser::Parser (lock-step)"],
            simulated: vec!["App", "Pipe (cuts define the windows)", "Window", "Consumer"],
            model: vec![],
            probes: vec!["calls_with_changed_rows", "calls_with_single_function", "calls_with_ris", "calls_with_mode_switch", "resize_calls", "feed_char_calls"],
            fault_kinds: vec!["resize_events", "resize_mid_sequence", "resize_while_alternate", "damaged_tokens", "env_events_inside_token", "feed_char_calls", "drain_drop"],
        }
    }
}
