//! C19 - RIS returns the terminal to its power-on state from anywhere.
use crate::gen::*;
use crate::model::parser::{RefParser, RF};
use crate::obs::{build, same_screen, screen_digest};
use crate::rng::Rng;
use crate::runner::*;
use crate::sim::{catch_avt, gen_events, gen_events_anycut, GenStats, Live, SessionOpts};
use crate::trace::{Drain, Event, Trace};

pub struct C19;

/// Execute an event on a plain terminal and return the changed-line report of the call(s) and the
/// lines handed out through `Changes.scrollback` (drained completely).
fn apply_report(vt: &mut avt::Vt, e: &Event) -> (Option<Vec<usize>>, Vec<avt::Line>) {
    match e {
        Event::FeedStr { s, .. } | Event::Inert { s, .. } => {
            let ch = vt.feed_str(s);
            let lines = ch.lines.clone();
            let out: Vec<avt::Line> = ch.scrollback.collect();
            (Some(lines), out)
        }
        Event::Feed { s } => {
            for ch in s.chars() {
                vt.feed(ch);
            }
            (None, vec![])
        }
        Event::Resize { cols, rows, .. } => {
            let ch = vt.resize(*cols, *rows);
            let lines = ch.lines.clone();
            let out: Vec<avt::Line> = ch.scrollback.collect();
            (Some(lines), out)
        }
        _ => (None, vec![]),
    }
}

impl Check for C19 {
    fn id(&self) -> &'static str {
        "C19"
    }
    fn runs(&self, tier: Tier) -> u64 {
        match tier {
            Tier::Quick => 800_000,
            Tier::Thorough => 15_000_000,
        }
    }
    fn generate(&self, r: &mut Rng, tier: Tier, st: &mut Stats) -> Trace {
        let big = tier == Tier::Thorough && r.chance(1, 20);
        let (mc, mr) = if big { (132, 50) } else { (40, 12) };
        let cfg = gen_config(r, mc, mr, true);
        let mut p = Profile::chaos();
        p.fam[F_MODES] = 12;
        p.fam[F_TABS] = 6;
        p.fam[F_MARGINS] = 6;
        p.fam[F_CHARSETS] = 6;
        p.fam[F_SAVE] = 6;
        p.fam[F_ALT] = 6;
        p.fam[F_PARTIAL] = 8;
        if r.chance(1, 2) {
            p = p.swarm(r);
        }
        p.snapshot_pm = 0;
        p.observe_pm = 0;
        p.allow_ris = false;
        p.max_tokens = 25;
        let o = SessionOpts { profile: p.clone(), max_cols: mc, max_rows: mr };
        let mut gs = GenStats::default();
        let policy = *r.pick(&CUT_POLICIES);
        let mut evs = gen_events(r, &cfg, &o, policy, DrainPolicy::AlwaysAll, &mut gs);
        // the reset, possibly glued to what precedes / follows it
        let mut p2 = p;
        p2.max_tokens = 12;
        p2.fam[F_PARTIAL] = 1;
        let (mut c, mut rw) = (cfg.cols, cfg.rows);
        for e in &evs {
            if let Event::Resize { cols, rows, .. } = e {
                c = *cols;
                rw = *rows;
            }
        }
        let cfg2 = crate::trace::Config { cols: c, rows: rw, limit: cfg.limit };
        let o2 = SessionOpts { profile: p2, max_cols: mc, max_rows: mr };
        let mut cont = gen_events_anycut(r, &cfg2, &o2, DrainPolicy::AlwaysAll, &mut gs);
        let ris = "\x1bc".to_string();
        match r.below(5) {
            4 => {
                // C0 controls are executed inside an escape sequence without ending it
                let c0 = *r.pick(&["\x00", "\x07", "\n", "\r", "\x08", "\x00\x00", "\x1f", "\x7f", "\x7f\x7f", "\x00\x7f"]);
                evs.push(Event::FeedStr { s: format!("\x1b{}c", c0), drain: Drain::All });
                st.bump("ris_with_c0_inside");
            }
            0 => evs.push(Event::FeedStr { s: ris, drain: Drain::All }),
            1 => evs.push(Event::Feed { s: ris }),
            2 => {
                // glued to the first feed of the continuation
                let mut glued = false;
                if let Some(Event::FeedStr { s, .. }) = cont.first_mut() {
                    *s = format!("{}{}", ris, s);
                    glued = true;
                }
                if !glued {
                    evs.push(Event::FeedStr { s: ris, drain: Drain::All });
                }
            }
            _ => {
                // cut between ESC and c
                evs.push(Event::FeedStr { s: "\x1b".into(), drain: Drain::All });
                evs.push(Event::FeedStr { s: "c".into(), drain: Drain::All });
            }
        }
        evs.extend(cont);
        super::record_gen(st, &gs);
        super::count_events(st, &evs);
        let mut t = Trace::new("C19", cfg);
        t.events = evs;
        t
    }
    fn execute(&self, t: &Trace, st: &mut Stats, _ctx: &Ctx) -> Verdict {
        // where does the (independent) reference parser see the first RIS?
        let mut rp = RefParser::new();
        let mut pos: Option<(usize, usize)> = None; // (event index, chars consumed incl. the 'c')
        'scan: for (i, e) in t.events.iter().enumerate() {
            if let Event::FeedStr { s, .. } | Event::Feed { s } | Event::Inert { s, .. } = e {
                for (k, ch) in s.chars().enumerate() {
                    if rp.feed(ch) == Some(RF::Ris) {
                        pos = Some((i, k + 1));
                        break 'scan;
                    }
                }
            }
        }
        let Some((ei, ck)) = pos else { return Verdict::Skip };
        // the original: whole history
        let pre = catch_avt(|| {
            let mut a = Live::new(&t.config);
            for e in &t.events[..ei] {
                a.apply(e);
            }
            a
        });
        let Ok(mut a) = pre else {
            st.bump("runs_abandoned_on_panic");
            return Verdict::Skip;
        };
        let pre_state = a.parser.state;
        let was_alt = a.hid.alt;
        let (c, rw) = (a.cols, a.rows);
        let rest: String = match &t.events[ei] {
            Event::FeedStr { s, .. } | Event::Feed { s } | Event::Inert { s, .. } => s.chars().skip(ck).collect(),
            _ => String::new(),
        };
        // Inert events are delivered in pieces; their per-call reports are not compared here
        let compare_reports = matches!(&t.events[ei], Event::FeedStr { .. } | Event::Feed { .. });
        let ra = catch_avt(|| a.apply(&t.events[ei]).lines);
        let rb = catch_avt(|| {
            let mut b = build(c, rw, t.config.limit);
            // the remainder of the call that carried the reset, delivered the same way (also when
            // it is empty: the call itself reports and clears the fresh terminal's changed lines)
            let rep = if matches!(&t.events[ei], Event::Feed { .. }) {
                for ch in rest.chars() {
                    b.feed(ch);
                }
                None
            } else {
                let ch = b.feed_str(&rest);
                let lines = ch.lines.clone();
                ch.scrollback.for_each(drop);
                Some(lines)
            };
            (b, rep)
        });
        let mut b = match (ra, rb) {
            (Ok(la), Ok((b, lb))) => {
                if compare_reports && la != lb {
                    return Verdict::Violation { rule: "C19/changed-lines".into(), detail: format!("the call that carried ESC c reported changed lines {:?}, a fresh terminal fed the rest of that call reports {:?}", la, lb) };
                }
                b
            }
            (Err(_), Err(_)) => {
                st.bump("runs_abandoned_on_panic");
                return Verdict::Skip;
            }
            (Err(p), _) => return Verdict::Violation { rule: "C19/panic-one-side".into(), detail: format!("the reset terminal panicked ({}), a fresh one did not", p) },
            (_, Err(p)) => return Verdict::Violation { rule: "C19/panic-one-side".into(), detail: format!("a fresh terminal panicked ({}), the reset one did not", p) },
        };
        let compare = |a: &Live, b: &avt::Vt, when: String| -> Option<Verdict> {
            let r = catch_avt(|| {
                if let Some(d) = same_screen(&a.vt, b) {
                    return Some(("C19/screen", d));
                }
                if a.vt.lines() != b.lines() {
                    return Some(("C19/lines", format!("lines(): {} vs fresh {}", a.vt.lines().len(), b.lines().len())));
                }
                let (da, db) = (a.vt.dump(), b.dump());
                if da != db {
                    return Some(("C19/dump", format!("dump() {:?} vs fresh {:?}", da, db)));
                }
                if a.vt.text() != b.text() {
                    return Some(("C19/text", "text() differs".to_string()));
                }
                None
            });
            match r {
                Err(p) => Some(Verdict::Violation { rule: "C19/panic-query".into(), detail: p }),
                Ok(Some((rule, d))) => Some(Verdict::Violation { rule: rule.into(), detail: format!("{}: {}", when, d) }),
                Ok(None) => None,
            }
        };
        if let Some(v) = compare(&a, &b, format!("right after the event containing ESC c (parser was in {:?}, alternate={})", pre_state, was_alt)) {
            return v;
        }
        let mut cont_events = 0u64;
        for (j, e) in t.events.iter().enumerate().skip(ei + 1) {
            let ra = catch_avt(|| {
                let rep = a.apply(e);
                (rep.lines, rep.drained, rep.dropped_nonempty)
            });
            let rb = catch_avt(|| apply_report(&mut b, e));
            match (ra, rb) {
                (Ok((la, sa, partial)), Ok((lb, sb))) => {
                    if !matches!(e, Event::Inert { .. }) && la != lb {
                        return Verdict::Violation { rule: "C19/changed-lines".into(), detail: format!("continuation event #{} ({}): the reset terminal reports changed lines {:?}, the fresh one {:?}", j, crate::trace::event_brief(e).chars().take(50).collect::<String>(), la, lb) };
                    }
                    // the lines handed out through Changes.scrollback (only judged when the
                    // consumer of the original drained its iterator completely, in one call)
                    let whole = matches!(e, Event::FeedStr { drain: Drain::All, .. } | Event::Resize { drain: Drain::All, .. });
                    if whole && !partial {
                        if !sa.is_empty() || !sb.is_empty() {
                            st.bump("continuation_calls_handing_out_scrollback");
                        }
                        if sa != sb {
                            return Verdict::Violation { rule: "C19/scrollback-handed-out".into(), detail: format!("continuation event #{} ({}): the reset terminal hands out {} lines through Changes.scrollback, the fresh one {} (or their content differs)", j, crate::trace::event_brief(e).chars().take(50).collect::<String>(), sa.len(), sb.len()) };
                        }
                    }
                }
                (Err(_), Err(_)) => {
                    st.bump("runs_abandoned_on_panic");
                    return Verdict::Skip;
                }
                (Err(p), _) | (_, Err(p)) => return Verdict::Violation { rule: "C19/panic-one-side".into(), detail: format!("continuation event #{}: only one of reset / fresh terminal panicked: {}", j, p) },
            }
            cont_events += 1;
            if let Some(v) = compare(&a, &b, format!("after continuation event #{} ({})", j, crate::trace::event_brief(e).chars().take(60).collect::<String>())) {
                return v;
            }
        }
        if pre_state != avt::parser::State::Ground {
            st.bump("ris_from_non_ground_parser");
        }
        if was_alt {
            st.bump("ris_on_alternate");
        }
        if cont_events > 0 {
            st.bump("runs_with_continuation");
        }
        let mut d = crate::rng::Digest::new();
        d.u64(screen_digest(&a.vt));
        d.u64(pre_state as u64);
        d.u64(was_alt as u64);
        Verdict::Pass { digest: d.0, nontrivial: ei > 0 }
    }
    fn meta(&self) -> Meta {
        Meta {
            rule: "chaos history (parser left in any state by partial tokens, alternate screen, modes, tabs, margins, charsets, saved contexts, resizes, damage) -> ESC c (own call, feed() loop, glued to the continuation, or cut between ESC and c) -> continuation (input and resizes); twin: a fresh Vt of the current size and limit fed the same continuation; compared after the reset and after every continuation event: view, lines(), cursor incl. visibility, cursor-key mode, text(), dump(), the changed-line report of each call and the lines each continuation call hands out through Changes.scrollback; the position of the reset is found by the reference parser; non-trivial = some history before the reset; distinct = (final screen, parser state before reset, alternate flag)",
            assumptions: vec!["'fresh terminal' = Vt::builder().size(current).scrollback_limit(configured).build()", "a panic on both sides is C01's subject"],
            real: vec!["avt::Vt (both twins)", "avt::parser::Parser (lock-step)"],
            simulated: vec!["App", "Pipe (cuts, damage, truncation)", "Window", "reset-recovery twin"],
            model: vec!["RefParser (locates the RIS)", "hidden-state tracker (alternate flag, probes)"],
            probes: vec!["ris_from_non_ground_parser", "ris_on_alternate", "runs_with_continuation", "continuation_calls_handing_out_scrollback", "ris_with_c0_inside", "resize_events"],
            fault_kinds: vec!["resize_events", "resize_mid_sequence", "resize_while_alternate", "damaged_tokens", "feed_char_calls", "env_events_inside_token"],
        }
    }
}
