//! One module per claimed property.
use crate::gen::*;
use crate::rng::Rng;
use crate::runner::{Check, Stats, Tier};
use crate::sim::{gen_events, GenStats, SessionOpts};
use crate::trace::{Config, Event, Trace};

pub mod c01;
pub mod c02;
pub mod c03;
pub mod c04;
pub mod c05;
pub mod c06;
pub mod modelrun;
pub mod c09;
pub mod c10;
pub mod c11;
pub mod c12;
pub mod c13;
pub mod c14;
pub mod c15;
pub mod c16;
pub mod c17;
pub mod c18;
pub mod c19;
pub mod c20;

pub fn all() -> Vec<Box<dyn Check>> {
    vec![Box::new(c01::C01), Box::new(c02::C02), Box::new(c03::C03), Box::new(c04::C04), Box::new(c05::C05), Box::new(c06::C06), Box::new(c09::C09), Box::new(c10::C10), Box::new(c11::C11), Box::new(c12::C12), Box::new(c13::C13), Box::new(c14::C14), Box::new(c15::C15), Box::new(c16::C16), Box::new(c17::C17), Box::new(c18::C18), Box::new(c19::C19), Box::new(c20::C20)]
}

pub fn by_id(id: &str) -> Option<Box<dyn Check>> {
    all().into_iter().find(|c| c.id() == id)
}

pub fn record_gen(st: &mut Stats, gs: &GenStats) {
    st.add("gen_tokens", gs.tokens);
    st.add("resize_events", gs.resizes);
    st.add("resize_while_wrap_pending", gs.resize_pending);
    st.add("resize_mid_sequence", gs.resize_mid_seq);
    st.add("resize_while_alternate", gs.resize_alt);
    st.add("giant_resizes", gs.giant_resizes);
    st.add("snapshot_events", gs.snapshots);
    st.add("snapshot_mid_sequence", gs.snapshot_mid_seq);
    st.add("damaged_tokens", gs.damage);
    st.add("env_events_inside_token", gs.intra_token_events);
}

pub fn count_events(st: &mut Stats, evs: &[Event]) {
    for e in evs {
        match e {
            Event::FeedStr { drain, .. } => {
                st.bump("feed_str_calls");
                match drain {
                    crate::trace::Drain::All => {}
                    crate::trace::Drain::Partial(_) => st.bump("drain_partial"),
                    crate::trace::Drain::Drop => st.bump("drain_drop"),
                }
            }
            Event::Feed { s } => st.add("feed_char_calls", s.chars().count() as u64),
            Event::Resize { .. } => {}
            Event::Snapshot => {}
            Event::Observe => st.bump("observe_events"),
            Event::Inert { .. } => st.bump("inert_items"),
        }
    }
}

/// A chaos session: every actor on, stream damage on (S1-S6 all on).
pub fn chaos_trace(r: &mut Rng, tier: Tier, id: &str, st: &mut Stats) -> Trace {
    let big = tier == Tier::Thorough && r.chance(1, 20);
    let (mc, mr) = if big { (132, 50) } else { (40, 12) };
    let cfg = if r.chance(1, 50) {
        Config { cols: 1 + r.usize_below(3), rows: 1 + r.usize_below(3), limit: Some(1_000_000) }
    } else {
        gen_config(r, mc, mr, true)
    };
    let mut p = Profile::chaos();
    if r.chance(2, 3) {
        p = p.swarm(r);
    }
    p.max_tokens = if big { 120 } else if tier == Tier::Thorough && r.chance(1, 10) { 80 } else { 25 };
    if r.chance(1, 300) {
        // a long session (several thousand characters)
        p.max_tokens = 400;
        p.min_tokens = 200;
    }
    if tier == Tier::Thorough && r.chance(1, 10) {
        // long slices of real recordings
        p.recorded_max = 16_000;
        p.fam[F_RECORDED] = p.fam[F_RECORDED].max(10);
        p.max_tokens = p.max_tokens.min(12);
    }
    p.giant_resizes = matches!(id, "C01" | "C02");
    let o = SessionOpts { profile: p, max_cols: mc, max_rows: mr };
    let policy = *r.pick(&CUT_POLICIES);
    let dp = *r.pick(&[DrainPolicy::AlwaysAll, DrainPolicy::Mixed, DrainPolicy::Mixed, DrainPolicy::AlwaysDrop]);
    let mut gs = GenStats::default();
    let evs = gen_events(r, &cfg, &o, policy, dp, &mut gs);
    record_gen(st, &gs);
    count_events(st, &evs);
    let mut t = Trace::new(id, cfg);
    t.events = evs;
    t
}

/// Volume faults: a single call (or a few pieces) carrying far more work than any session of
/// ordinary tokens - beyond 2^17 and 2^20 rows scrolled off, beyond 2^20 cells repeated, beyond
/// 2^21 characters - so that per-call budgets, batch sizes and counters of those magnitudes are crossed.
#[derive(Clone, Copy, PartialEq, Eq, Debug)]
pub enum Volume {
    Lines17,
    Lines20,
    Rep20,
    Chars21,
}

pub fn volume_string(r: &mut Rng, kind: Volume) -> String {
    let unit = *r.pick(&["\n", "a\n", "ab\r\n", "\n"]);
    match kind {
        Volume::Lines17 => unit.repeat(131_073 + r.usize_below(30_000)),
        Volume::Lines20 => unit.repeat(1_048_577 + r.usize_below(80_000)),
        Volume::Rep20 => format!("x{}", "\x1b[65535b".repeat(17 + r.usize_below(4))),
        Volume::Chars21 => {
            let unit = *r.pick(&["ab\n", "abc\r\n", "a\n"]);
            let target = 2 * 1_048_576 + 50_000 + r.usize_below(1_100_000);
            unit.repeat(target / unit.len() + 1)
        }
    }
}

/// Draws a volume kind (or none) for one run: `limited` = the rows scrolled off are not retained
/// (a scrollback limit, or the string is sent to the alternate screen), which bounds the memory.
/// `cols` / `rows`: the largest width / height the session reaches (configuration and resize events):
/// every scrolled row costs its width in cells (and a tall screen its height in row moves), so volume
/// is kept to ordinary geometries - a 10000-column screen scrolled 500000 times is minutes of
/// legitimately requested work.
pub fn draw_volume(r: &mut Rng, limited: bool, cols: usize, rows: usize) -> Option<Volume> {
    let v = match r.below(30_000) {
        0..=9 => Some(Volume::Lines17),
        10..=19 => Some(Volume::Rep20),
        20 if limited => Some(Volume::Lines20),
        21 if limited => Some(Volume::Chars21),
        _ => None,
    };
    match v {
        Some(Volume::Lines17) if cols > 512 || rows > 512 => None,
        Some(Volume::Rep20) if cols * rows > 20_000 => None,
        Some(Volume::Lines20) | Some(Volume::Chars21) if cols > 16 || rows > 50 => None,
        v => v,
    }
}

/// the largest width and height among the configuration and the resize events
pub fn max_geometry(cfg: &crate::trace::Config, evs: &[Event]) -> (usize, usize) {
    let (mut c, mut r) = (cfg.cols, cfg.rows);
    for e in evs {
        if let Event::Resize { cols, rows, .. } = e {
            c = c.max(*cols);
            r = r.max(*rows);
        }
    }
    (c, r)
}

/// The volume string as `k` feed_str events (k = 1: one call).
pub fn volume_events(s: &str, k: usize, r: &mut Rng) -> Vec<Event> {
    let chars: Vec<char> = s.chars().collect();
    let mut cuts: Vec<usize> = (0..k.saturating_sub(1)).map(|_| 1 + r.usize_below(chars.len().max(2) - 1)).collect();
    cuts.sort();
    cuts.dedup();
    cuts.push(chars.len());
    let mut out = vec![];
    let mut start = 0;
    for c in cuts {
        out.push(Event::FeedStr { s: chars[start..c].iter().collect(), drain: crate::trace::Drain::All });
        start = c;
    }
    out
}
