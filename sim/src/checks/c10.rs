//! C10 - resizing keeps the logical text and the cursor's place in it.
use crate::gen::*;
use crate::obs::{conv_line, MCell};
use crate::rng::Rng;
use crate::runner::*;
use crate::sim::{catch_avt, gen_events, gen_events_anycut, GenStats, Live, SessionOpts};
use crate::trace::{Config, Event, Trace};

pub struct C10;

/// The logical view of a terminal: logical lines (cells of rows joined by soft-wrap marks,
/// right-trimmed of default cells) and the cursor as (logical line index, offset in it).
#[derive(Clone, Debug)]
pub struct Logical {
    pub lines: Vec<Vec<MCell>>,
    pub cur_line: usize,
    pub cur_off: usize,
}

pub fn trim(mut v: Vec<MCell>) -> Vec<MCell> {
    while v.last().map(|c| c.is_default()).unwrap_or(false) {
        v.pop();
    }
    v
}

pub fn logical(vt: &avt::Vt) -> Logical {
    let (cols, rows) = vt.size();
    let lines = vt.lines();
    let c = vt.cursor();
    let abs_row = lines.len() - rows + c.row;
    let mut out: Vec<Vec<MCell>> = vec![];
    let mut cur: Vec<MCell> = vec![];
    let mut rows_in_cur = 0usize;
    let (mut cur_line, mut cur_off) = (0usize, 0usize);
    for (i, l) in lines.iter().enumerate() {
        let row = conv_line(l);
        if i == abs_row {
            cur_line = out.len();
            cur_off = rows_in_cur * cols + c.col;
        }
        cur.extend(row.cells.iter());
        rows_in_cur += 1;
        if !row.wrapped {
            out.push(trim(std::mem::take(&mut cur)));
            rows_in_cur = 0;
        }
    }
    if rows_in_cur > 0 {
        out.push(trim(cur));
    }
    Logical { lines: out, cur_line, cur_off }
}

fn is_prefix(a: &[MCell], b: &[MCell]) -> bool {
    a.len() <= b.len() && a == &b[..a.len()]
}

/// The relation the property states between the logical views before and after a resize.
pub fn relation(before: &Logical, after: &Logical) -> Option<(&'static str, String)> {
    let l = before.cur_line;
    if after.cur_line != l {
        return Some(("cursor-line", format!("cursor was in logical line {}, is in {}", l, after.cur_line)));
    }
    if after.lines.len() <= l {
        return Some(("cursor-line-missing", format!("only {} logical lines after the resize, cursor line is {}", after.lines.len(), l)));
    }
    for i in 0..l {
        if before.lines[i] != after.lines[i] {
            return Some(("line-above-cursor-changed", format!("logical line {} (above the cursor's line {}) changed", i, l)));
        }
    }
    let old = &before.lines[l];
    let new = &after.lines[l];
    if !is_prefix(new, old) {
        return Some(("cursor-line-altered", format!("the cursor's logical line is no prefix of what it was ({} -> {} cells)", old.len(), new.len())));
    }
    let k = before.cur_off.min(old.len());
    let keep = trim(old[..k].to_vec());
    if !is_prefix(&keep, new) {
        return Some(("text-before-cursor-lost", format!("text before the cursor ({} cells) is not intact (line now {} cells)", keep.len(), new.len())));
    }
    if before.cur_off < old.len() && after.cur_off != before.cur_off {
        return Some(("cursor-offset", format!("cursor was on character {} of its logical line, is on {}", before.cur_off, after.cur_off)));
    }
    // lines after the cursor's: identical or cut short; after the first cut only empty lines
    let mut cut = new.len() < old.len();
    for i in l + 1..before.lines.len().max(after.lines.len()) {
        let o: &[MCell] = before.lines.get(i).map(|v| &v[..]).unwrap_or(&[]);
        let n: &[MCell] = after.lines.get(i).map(|v| &v[..]).unwrap_or(&[]);
        if cut {
            if !n.is_empty() {
                return Some(("content-after-cut", format!("logical line {} is non-empty although an earlier line was cut short", i)));
            }
        } else if n != o {
            if !is_prefix(n, o) {
                return Some(("line-below-cursor-altered", format!("logical line {} (below the cursor) was altered, not cut", i)));
            }
            cut = true;
        }
    }
    None
}

impl Check for C10 {
    fn id(&self) -> &'static str {
        "C10"
    }
    fn runs(&self, tier: Tier) -> u64 {
        match tier {
            Tier::Quick => 600_000,
            Tier::Thorough => 10_000_000,
        }
    }
    fn generate(&self, r: &mut Rng, tier: Tier, st: &mut Stats) -> Trace {
        let big = tier == Tier::Thorough && r.chance(1, 20);
        let (mc, mr) = if big { (100, 30) } else { (24, 10) };
        let (cols, rows) = gen_size(r, mc, mr);
        let cfg = Config { cols, rows, limit: None };
        let mut p = Profile::base();
        p.fam[F_ALT] = 0;
        p.fam[F_TEXT] = 40;
        p.fam[F_C0] = 14;
        p.allow_ris = true;
        p.fam[F_RESET] = 2;
        p.text_widths = 3;
        if r.chance(1, 2) {
            p = p.swarm(r);
            p.fam[F_TEXT] = p.fam[F_TEXT].max(10);
        }
        p.fam[F_ALT] = 0;
        p.resize_pm = *r.pick(&[60, 120, 200]);
        p.intra_pct = 40;
        p.boost = 4;
        p.huge = false;
        p.max_tokens = if big { 80 } else { 25 };
        let o = SessionOpts { profile: p, max_cols: mc, max_rows: mr };
        let mut gs = GenStats::default();
        let mut evs = gen_events_anycut(r, &cfg, &o, DrainPolicy::AlwaysAll, &mut gs);
        // always end with a chain of 1-3 resizes
        let (mut c, mut rw) = (cols, rows);
        for e in &evs {
            if let Event::Resize { cols, rows, .. } = e {
                c = *cols;
                rw = *rows;
            }
        }
        // one chain in five happens behind the alternate screen: the primary screen is then re-wrapped
        // when the terminal returns to it, with the cursor saved by ?1049h
        let excursion = c * rw <= 20_000 && r.chance(1, 5);
        if excursion {
            evs.push(Event::FeedStr { s: "\x1b[?1049h".into(), drain: crate::trace::Drain::All });
            if r.chance(1, 2) {
                evs.push(Event::FeedStr { s: (*r.pick(&["\x1b[!p", "alt\r\nscreen", "\x1b7", "\x1b[5;5H\x1b[s", "\x1b[!p\x1b[2J", "\x1b[?6h", "\x1b[2;3r"])).to_string(), drain: crate::trace::Drain::All });
            }
            st.bump("excursion_chains");
        }
        for k in 0..1 + r.usize_below(3) {
            if c * rw > 20_000 {
                break; // gigantic screens keep their geometry (see sim::gen_session)
            }
            if excursion && k > 0 && r.chance(1, 3) {
                evs.push(Event::FeedStr { s: (*r.pick(&["\x1b[!p", "x", "\x1b8", "\x1b[H"])).to_string(), drain: crate::trace::Drain::All });
            }
            let (c2, r2) = gen_resize(r, c, rw, mc, mr);
            evs.push(Event::Resize { cols: c2, rows: r2, drain: crate::trace::Drain::All });
            c = c2;
            rw = r2;
            gs.resizes += 1;
        }
        if excursion {
            evs.push(Event::FeedStr { s: "\x1b[?1049l".into(), drain: crate::trace::Drain::All });
        }
        super::record_gen(st, &gs);
        super::count_events(st, &evs);
        let mut t = Trace::new("C10", cfg);
        t.events = evs;
        t
    }
    fn execute(&self, t: &Trace, st: &mut Stats, _ctx: &Ctx) -> Verdict {
        if t.config.limit.is_some() {
            return Verdict::Skip;
        }
        let res = catch_avt(|| {
            let mut live = Live::new(&t.config);
            let mut judged = 0u64;
            let mut d = crate::rng::Digest::new();
            // an excursion to the alternate screen entered by a "?1049h" event of its own: the view
            // of the primary screen at that instant, judged against the view after the "?1049l" event
            let mut excursion: Option<(Logical, usize, usize, bool)> = None;
            for (i, e) in t.events.iter().enumerate() {
                let Event::Resize { cols, rows, .. } = e else {
                    let enter = matches!(e, Event::FeedStr { s, .. } if s == "\x1b[?1049h") && !live.hid.alt && live.parser.state == avt::parser::State::Ground;
                    let leave = matches!(e, Event::FeedStr { s, .. } if s == "\x1b[?1049l") && live.hid.alt && live.parser.state == avt::parser::State::Ground;
                    if enter {
                        let (oc, or) = live.vt.size();
                        excursion = Some((logical(&live.vt), oc, or, live.vt.cursor().col >= oc));
                    }
                    live.apply(e);
                    if leave && !live.hid.alt {
                        if let Some((before, oc, or, pending)) = excursion.take() {
                            let (nc, nr) = live.vt.size();
                            if pending {
                                // ?1049h saves the cursor on the last column, not past it
                                st.bump("excursion_not_judged_wrap_pending");
                            } else {
                                let after = logical(&live.vt);
                                judged += 1;
                                st.bump("excursion_judged");
                                if (nc, nr) != (oc, or) {
                                    st.bump("excursion_judged_size_changed");
                                }
                                if let Some((rule, dd)) = relation(&before, &after) {
                                    return Verdict::Violation { rule: format!("C10/excursion-{}", rule), detail: format!("event #{}: primary screen {}x{} left by ?1049h, terminal resized meanwhile, returned by ?1049l at {}x{} (cursor line {} offset {}): {}", i, oc, or, nc, nr, before.cur_line, before.cur_off, dd) };
                                }
                                if let Some((rule, dd)) = super::c02::geometry(&live, (nc, nr)) {
                                    return Verdict::Violation { rule: format!("C10/geometry-{}", rule), detail: dd };
                                }
                            }
                        }
                    } else if !live.hid.alt && !enter {
                        excursion = None;
                    }
                    continue;
                };
                if live.hid.alt {
                    // the statement is about the primary screen
                    live.apply(e);
                    continue;
                }
                let (oc, or) = live.vt.size();
                let before = logical(&live.vt);
                let pending = live.vt.cursor().col >= oc;
                let mid = live.parser.state != avt::parser::State::Ground;
                live.apply(e);
                let after = logical(&live.vt);
                judged += 1;
                if *cols > oc {
                    st.bump("resize_wider");
                }
                if *cols < oc {
                    st.bump("resize_narrower");
                }
                if *rows > or {
                    st.bump("resize_taller");
                }
                if *rows < or {
                    st.bump("resize_shorter");
                }
                if pending {
                    st.bump("resize_with_wrap_pending");
                }
                if mid {
                    st.bump("resize_mid_sequence_judged");
                }
                if before.lines.len() > after.lines.len() || before.lines.iter().zip(after.lines.iter()).any(|(a, b)| a.len() > b.len()) {
                    st.bump("content_cut_below_cursor");
                }
                if before.lines.get(before.cur_line).map(|l| l.len()).unwrap_or(0) > cols * rows {
                    st.bump("cursor_line_taller_than_view");
                }
                d.u64(before.lines.len() as u64);
                d.u64(after.cur_off as u64);
                if let Some((rule, dd)) = relation(&before, &after) {
                    return Verdict::Violation { rule: format!("C10/{}", rule), detail: format!("event #{} resize {}x{} -> {}x{} (cursor line {} offset {}{}): {}", i, oc, or, cols, rows, before.cur_line, before.cur_off, if pending { ", wrap pending" } else { "" }, dd) };
                }
                if let Some((rule, dd)) = super::c02::geometry(&live, (*cols, *rows)) {
                    return Verdict::Violation { rule: format!("C10/geometry-{}", rule), detail: dd };
                }
            }
            d.u64(crate::obs::screen_digest(&live.vt));
            if judged == 0 {
                return Verdict::Skip;
            }
            Verdict::Pass { digest: d.0, nontrivial: judged > 0 && live.vt.lines().iter().any(|l| l.cells().iter().any(|c| !c.is_default())) }
        });
        match res {
            Ok(v) => v,
            Err(_) => {
                st.bump("runs_abandoned_on_panic");
                Verdict::Skip
            }
        }
    }
    fn meta(&self) -> Meta {
        Meta {
            rule: "arbitrary primary-screen histories (every family except the alternate screen; incl. DECSTR and RIS; rows whose marks were set and cleared by editing), unlimited scrollback, resizes delivered at scheduler-chosen instants (also mid-sequence and with wrap pending, boosted) plus a final chain of 1-3 resizes between any sizes >= 1x1, one chain in five behind the alternate screen (?1049h, optional DECSTR / saves / output there, the resizes, ?1049l: the primary screen is re-wrapped on return with the cursor ?1049h saved); oracle = the stated relation between the logical views (logical line = cells of rows joined by marks, right-trimmed of default cells) before and after each resize, plus the C02 geometry; non-trivial = a resize judged on a non-blank buffer; distinct = digests of (logical line counts, cursor offsets, final screen)",
            assumptions: vec!["'same character' is judged only when the cursor was on a cell of the trimmed logical line; wrap pending counts as the next cell", "single resizes while the alternate screen shows are not judged (C16); an excursion entered by a ?1049h event of its own is judged as one compound resize of the primary screen, unless a wrap was pending on entry (?1049h saves the cursor on the last column)", "a run in which avt panics is abandoned"],
            real: vec!["avt::Vt", "avt::parser::Parser (lock-step)", "avt::util::TextUnwrapper (wrap marks)"],
            simulated: vec!["App", "Pipe", "Window (resize timing)"],
            model: vec!["logical-line relation of the statement"],
            probes: vec!["resize_wider", "resize_narrower", "resize_taller", "resize_shorter", "resize_with_wrap_pending", "resize_mid_sequence_judged", "content_cut_below_cursor", "cursor_line_taller_than_view", "excursion_judged", "excursion_judged_size_changed"],
            fault_kinds: vec!["resize_events", "resize_while_wrap_pending", "resize_mid_sequence", "env_events_inside_token", "feed_char_calls"],
        }
    }
}
