//! C03 - the parser follows the DEC/ANSI state machine; dispatch is exact and memoryless.
//! Parser-level simulation: the real `avt::parser::Parser` in lock-step with RefParser.
use crate::gen::*;
use crate::model::parser::{rf_of, st_of, RefParser, St, ALL_STATES, RF};
use crate::rng::Rng;
use crate::runner::*;
use crate::sim::catch_avt;
use crate::trace::{Config, Drain, Event, Trace};
use avt::parser::Parser;
use serde_json::{json, Value};

pub struct C03;

/// Prefixes ("backgrounds") that bring a fresh parser into each state while leaving different
/// parameters / intermediates / saturated counters behind.
pub fn backgrounds(st: St) -> Vec<String> {
    let many: String = (0..40).map(|i| format!("{};", i)).collect();
    let subs: String = (0..9).map(|i| format!("{}:", i)).collect();
    let stale = "\x1b[1;2;3;4;5;6;7;8;9m\x1b[38:2:1:2:3m";
    let v: Vec<String> = match st {
        St::Ground => vec!["".into(), "x".into(), stale.into(), format!("\x1b[{}m", many), "\x1b(0".into()],
        St::Escape => vec!["\x1b".into(), format!("{}\x1b", stale), "\x1b[1;2\x1b".into(), "\x1bP1$q\x1b".into(), "\x1b]x\x1b".into()],
        St::EscapeIntermediate => vec!["\x1b(".into(), "\x1b#".into(), "\x1b  ".into(), format!("{}\x1b)", stale), "\x1b%/".into()],
        St::CsiEntry => vec!["\x1b[".into(), "\u{9b}".into(), format!("{}\x1b[", stale), format!("\x1b[{}m\u{9b}", many), "\x1b[?5\u{9b}".into()],
        St::CsiParam => vec![
            "\x1b[1".into(),
            "\x1b[1;2".into(),
            "\x1b[?".into(),
            "\x1b[?6".into(),
            "\x1b[38:2:1".into(),
            "\x1b[;".into(),
            format!("\x1b[{}", many),
            format!("\x1b[{}", subs),
            format!("{}\x1b[65535", stale),
            "\x1b[>1".into(),
        ],
        St::CsiIntermediate => vec!["\x1b[ ".into(), "\x1b[1 ".into(), "\x1b[!".into(), "\x1b[?1$".into(), format!("{}\x1b[1;2 ", stale)],
        St::CsiIgnore => vec!["\x1b[:".into(), "\x1b[1<".into(), "\x1b[ 0".into(), format!("{}\x1b[1;2?", stale)],
        St::DcsEntry => vec!["\x1bP".into(), "\u{90}".into(), format!("{}\x1bP", stale)],
        St::DcsParam => vec!["\x1bP1".into(), "\x1bP?".into(), "\x1bP1;2".into(), format!("\x1bP{}", many)],
        St::DcsIntermediate => vec!["\x1bP$".into(), "\x1bP1$".into(), "\x1bP ".into()],
        St::DcsPassthrough => vec!["\x1bPq".into(), "\x1bP1$qabc".into(), "\u{90}1;2|x".into()],
        St::DcsIgnore => vec!["\x1bP:".into(), "\x1bP1<".into(), "\x1bP$0".into()],
        St::OscString => vec!["\x1b]".into(), "\u{9d}0;t".into(), format!("{}\x1b]8;;http://x", stale)],
        St::SosPmApcString => vec!["\x1bX".into(), "\x1b^".into(), "\x1b_".into(), "\u{98}abc".into(), "\u{9e}".into(), "\u{9f}x".into()],
    };
    v
}

/// class-boundary representatives of the transition table
pub const REPRESENTATIVES: [u32; 62] = [
    0x00, 0x07, 0x08, 0x0d, 0x17, 0x18, 0x19, 0x1a, 0x1b, 0x1c, 0x1f, 0x20, 0x2f, 0x30, 0x39, 0x3a, 0x3b, 0x3c, 0x3f, 0x40, 0x4f, 0x50, 0x57, 0x58, 0x59, 0x5a, 0x5b, 0x5c, 0x5d, 0x5e, 0x5f,
    0x60, 0x63, 0x7e, 0x7f, 0x80, 0x84, 0x85, 0x88, 0x8d, 0x8f, 0x90, 0x91, 0x97, 0x98, 0x99, 0x9a, 0x9b, 0x9c, 0x9d, 0x9e, 0x9f, 0xa0, 0xff, 0x100, 0xd7ff, 0xe000, 0xfffd, 0xffff,
    0x10000, 0x10ffff, 0x41,
];

/// Lock-step comparison over a character stream. Returns (rule, detail) on the first divergence.
fn lockstep(chars: &[char], st: &mut Stats, count: bool) -> Option<(String, String)> {
    let mut real = Parser::new();
    let mut refp = RefParser::new();
    for (i, &ch) in chars.iter().enumerate() {
        let before = refp.st;
        let fr = real.feed(ch).map(|f| rf_of(&f));
        let fe = refp.feed(ch);
        let sr = st_of(&real.state);
        if fr != fe || sr != refp.st {
            let hist: String = chars[i.saturating_sub(64)..i].iter().collect();
            if fr != fe {
                return Some(("C03/function".into(), format!("after ...{:?}, in state {:?} on {:?} (U+{:04X}): avt dispatched {:?}, reference {:?}", hist, before, ch, ch as u32, fr, fe)));
            }
            return Some(("C03/state".into(), format!("after ...{:?}, in state {:?} on {:?} (U+{:04X}): avt went to {:?}, reference to {:?}", hist, before, ch, ch as u32, sr, refp.st)));
        }
        if count && fe.is_some() {
            st.bump("functions_compared");
        }
    }
    None
}

fn step_string(bg: &str, c: char) -> String {
    // the step itself, then: a final byte that dispatches with whatever was collected, then
    // CAN + a complete CUP whose parameters must come out as written (no stale leakage)
    format!("{}{}H\x18\x1b[;7H\x1b[5m", bg, c)
}

impl C03 {
    fn table_phase(&self, tier: Tier, st: &mut Stats) -> Result<Value, (String, String, Trace)> {
        // single-step table: every state x backgrounds x characters
        let workers = default_workers();
        let full_bgs = tier == Tier::Thorough;
        let jobs: Vec<(St, String)> = ALL_STATES
            .iter()
            .flat_map(|s| {
                let b = backgrounds(*s);
                let b: Vec<String> = if full_bgs { b } else { b.into_iter().take(2).collect() };
                b.into_iter().map(move |bg| (*s, bg))
            })
            .collect();
        // sanity: every background reaches its state in the reference parser
        for (s, bg) in &jobs {
            let mut rp = RefParser::new();
            for ch in bg.chars() {
                rp.feed(ch);
            }
            if rp.st != *s {
                panic!("background {:?} does not reach {:?} in the reference parser (harness bug)", bg, s);
            }
        }
        let fail: std::sync::Mutex<Option<(String, String, String)>> = std::sync::Mutex::new(None);
        let steps = std::sync::atomic::AtomicU64::new(0);
        let next = std::sync::atomic::AtomicUsize::new(0);
        std::thread::scope(|sc| {
            for _ in 0..workers {
                sc.spawn(|| {
                    let mut local = Stats::default();
                    loop {
                        let j = next.fetch_add(1, std::sync::atomic::Ordering::SeqCst);
                        if j >= jobs.len() || fail.lock().unwrap().is_some() {
                            break;
                        }
                        let (_s, bg) = &jobs[j];
                        let mut n = 0u64;
                        let mut buf: Vec<char> = step_string(bg, 'x').chars().collect();
                        let pos = bg.chars().count();
                        for cp in 0..=0x10ffffu32 {
                            let Some(c) = char::from_u32(cp) else { continue };
                            buf[pos] = c;
                            n += 1;
                            let r = catch_avt(|| lockstep(&buf, &mut local, false));
                            let bad = match r {
                                Ok(None) => None,
                                Ok(Some((rule, d))) => Some((rule, d)),
                                Err(p) => Some(("C03/panic".to_string(), p)),
                            };
                            if let Some((rule, d)) = bad {
                                let mut f = fail.lock().unwrap();
                                if f.is_none() {
                                    *f = Some((rule, d, buf.iter().collect::<String>()));
                                }
                                break;
                            }
                        }
                        steps.fetch_add(n, std::sync::atomic::Ordering::SeqCst);
                    }
                });
            }
        });
        if let Some((rule, d, s)) = fail.into_inner().unwrap() {
            let mut t = Trace::new("C03", Config { cols: 4, rows: 2, limit: None });
            t.events.push(Event::Feed { s });
            return Err((rule, d, t));
        }
        // ESC Fe == C1 from every state/background
        let mut fe_pairs = 0u64;
        for (s, bg) in &jobs {
            for x in 0x40u32..=0x5f {
                let seven = format!("{}\x1b{}", bg, char::from_u32(x).unwrap());
                let eight = format!("{}{}", bg, char::from_u32(x + 0x40).unwrap());
                let run = |inp: &str| -> (Option<RF>, St, Vec<Option<RF>>) {
                    let mut p = Parser::new();
                    let mut last = None;
                    for ch in inp.chars() {
                        last = p.feed(ch).map(|f| rf_of(&f));
                    }
                    let state = st_of(&p.state);
                    // follow-up exposes what was collected
                    let follow: Vec<Option<RF>> = "1;2H\x18\x1b[;7H".chars().map(|ch| p.feed(ch).map(|f| rf_of(&f))).collect();
                    (last, state, follow)
                };
                let (a, b) = (run(&seven), run(&eight));
                fe_pairs += 1;
                if a != b {
                    let mut t = Trace::new("C03", Config { cols: 4, rows: 2, limit: None });
                    t.events.push(Event::Feed { s: seven.clone() });
                    t.params.insert("esc_fe_twin".into(), json!(eight));
                    return Err(("C03/esc-fe-vs-c1".into(), format!("from {:?} (background {:?}): ESC {:?} gives {:?}, C1 U+{:04X} gives {:?}", s, bg, char::from_u32(x).unwrap(), a, x + 0x40, b), t));
                }
            }
        }
        let n = steps.load(std::sync::atomic::Ordering::SeqCst);
        st.add("table_single_steps", n);
        st.add("esc_fe_pairs", fe_pairs);
        Ok(json!({
            "single_step_table_exhaustive": true,
            "note": "this sub-workload is enumeration, not sampling: all 1,112,064 scalar values x every (state, background) job, each step followed by a dispatching final byte and a CAN + fresh CUP/SGR (stale-parameter leakage); reported separately from the sampled runs",
            "states": 14,
            "backgrounds_per_state": if full_bgs { "all (3-10)" } else { "first 2" },
            "jobs": jobs.len(),
            "single_steps": n,
            "esc_fe_vs_c1_pairs": fe_pairs,
        }))
    }
}

fn param_shape(r: &mut Rng) -> String {
    match r.below(14) {
        0 => String::new(),
        1 => ";".into(),
        2 => format!(";{}", r.below(100)),
        3 => format!("{};", r.below(100)),
        4 => format!("{}:{}", r.below(100), r.below(100)),
        5 => format!("{}::{}", r.below(100), r.below(100)),
        6 => (0..33 + r.below(5)).map(|i| format!("{}", i)).collect::<Vec<_>>().join(";"),
        7 => (0..7 + r.below(4)).map(|i| format!("{}", i)).collect::<Vec<_>>().join(":"),
        8 => (*r.pick(&["0", "1", "65535", "65536", "10000000000", "4294967296", "99999"])).into(),
        9 => format!("{};{}", r.below(300), r.below(300)),
        10 => format!("{};{};{}", r.below(10), r.below(70000), r.below(70000)),
        11 => format!("8;{};{}", r.below(100), r.below(100)),
        _ => format!("{}", r.below(30)),
    }
}

fn sgr_colour_form(r: &mut Rng) -> String {
    let g = *r.pick(&[38u32, 48, 38, 48, 38, 48, 58, 28, 8, 39, 0, 4]);
    let c = |r: &mut Rng| r.below(256);
    let body = match r.below(12) {
        0 => format!("{};5;{}", g, c(r)),
        1 => format!("{}:5:{}", g, c(r)),
        2 => format!("{};2;{};{};{}", g, c(r), c(r), c(r)),
        3 => format!("{}:2:{}:{}:{}", g, c(r), c(r), c(r)),
        4 => format!("{}:2::{}:{}:{}", g, c(r), c(r), c(r)),
        5 => format!("1;{};5;{};4", g, c(r)),
        6 => format!("{};2;{};{}", g, c(r), c(r)), // truncated
        7 => format!("{};5", g),
        8 => format!("{}", g),
        9 => format!("{};7;{}", g, c(r)),
        10 => format!("{}:5", g),
        _ => format!("{}:2:{}:{}", g, c(r), c(r)),
    };
    let pre = *r.pick(&["", "0;", "1;", ";", "22;"]);
    let post = *r.pick(&["", ";0", ";3", ";", ";39"]);
    format!("{}{}{}", pre, body, post)
}

fn c03_token(r: &mut Rng) -> String {
    let intro = if r.chance(1, 3) { "\u{9b}" } else { "\x1b[" };
    match r.below(13) {
        12 => {
            // 30-36 parameters (some empty, some with sub-parts) and a final that reads them all:
            // two of these in one stream expose stale values in the last slots
            let n = 30 + r.below(7);
            let ps: Vec<String> = (0..n)
                .map(|_| match r.below(5) {
                    0 => String::new(),
                    1 => format!("{}:{}", r.below(50), r.below(50)),
                    _ => format!("{}", r.pick(&[0u32, 1, 4, 5, 7, 20, 25, 39, 47, 1047, 1049, 6])),
                })
                .collect();
            let q = if r.chance(1, 3) { "?" } else { "" };
            format!("{}{}{}{}", intro, q, ps.join(";"), r.pick(&['m', 'm', 'h', 'l', 'H', 'r', 't']))
        }
        0..=3 => {
            // every final x prefix x parameter shape
            let f = char::from_u32(0x40 + r.below(0x3f) as u32).unwrap();
            let prefix = match r.below(10) {
                0 => "?".to_string(),
                1 => "!".to_string(),
                2 => (*r.pick(&["<", "=", ">"])).to_string(),
                _ => String::new(),
            };
            let inter = match r.below(8) {
                0 => char::from_u32(0x20 + r.below(0x10) as u32).unwrap().to_string(),
                1 => format!("{}{}", char::from_u32(0x20 + r.below(0x10) as u32).unwrap(), char::from_u32(0x20 + r.below(0x10) as u32).unwrap()),
                _ => String::new(),
            };
            format!("{}{}{}{}{}", intro, prefix, param_shape(r), inter, f)
        }
        4 => {
            // ESC finals with 0-2 intermediates
            let f = char::from_u32(0x30 + r.below(0x4f) as u32).unwrap();
            let inter: String = (0..r.below(3)).map(|_| char::from_u32(0x20 + r.below(0x10) as u32).unwrap()).collect();
            format!("\x1b{}{}", inter, f)
        }
        5 => format!("{}{}m", intro, sgr_colour_form(r)),
        6 => {
            // C0 / C1 executed in the middle of a sequence
            let c = char::from_u32(*r.pick(&[0x08, 0x09, 0x0a, 0x0d, 0x0e, 0x0f, 0x00, 0x07, 0x1c, 0x84, 0x85, 0x88, 0x8d, 0x7f])).unwrap();
            format!("{}{}{}{}H", intro, r.below(20), c, r.below(20))
        }
        7 => inert_item(r),
        8 => {
            let modes = *r.pick(&["1", "6", "7", "25", "47", "1047", "1048", "1049", "4", "20", "1;6;7", "47;1047;1049", "2", "3;4;20", "1049;25"]);
            let q = if r.chance(2, 3) { "?" } else { "" };
            format!("{}{}{}{}", intro, q, modes, r.pick(&['h', 'l']))
        }
        9 => (0..1 + r.below(6)).map(|_| wild_char(r)).collect(),
        10 => (*r.pick(&["\x1b7", "\x1b8", "\x1bc", "\x1b#8", "\x1b(0", "\x1b(B", "\x1b)0", "\x1b)A", "\x1bD", "\x1bE", "\x1bH", "\x1bM", "\x1b\\", "\x1b="])).to_string(),
        _ => (0..1 + r.below(5)).map(|_| *r.pick(&['a', ' ', '~', '\u{7f}', 'é', '日'])).collect(),
    }
}

impl Check for C03 {
    fn id(&self) -> &'static str {
        "C03"
    }
    fn runs(&self, tier: Tier) -> u64 {
        match tier {
            Tier::Quick => 2_000_000,
            Tier::Thorough => 60_000_000,
        }
    }
    fn generate(&self, r: &mut Rng, _tier: Tier, st: &mut Stats) -> Trace {
        let mut n = 1 + r.below(12);
        let mut s = String::new();
        // volume: far more than 2^14 functions and characters in one stream (rare)
        let volume = r.chance(1, 4000);
        let volume_target = if volume { 17_000 + r.usize_below(20_000) } else { 0 };
        if volume {
            n = u64::MAX;
            st.bump("volume_streams");
        }
        let mut count = 0usize;
        for _ in 0..n {
            if volume && count > volume_target {
                break;
            }
            if !volume && r.chance(1, 300) {
                // a control string far longer than any buffer size one might think of (4096, 8192, 16384)
                let intro = *r.pick(&["\x1b]", "\u{9d}", "\x1bP", "\u{90}", "\x1b_", "\u{9f}", "\x1bX", "\x1b^", "\x1bP1;2|", "\x1b]52;c;"]);
                let len = *r.pick(&[4_090usize, 4_097, 5_000, 8_193, 16_385, 20_000]) + r.usize_below(8);
                let filler = *r.pick(&["a", "QUJD", "x y", "\u{e9}", "\u{65e5}\u{672c}", "0;", "\u{7f}a"]);
                let body: String = filler.chars().cycle().take(len).collect();
                let term = *r.pick(&["\x07", "\x1b\\", "\u{9c}", "\x18", ""]);
                s.push_str(intro);
                s.push_str(&body);
                s.push_str(term);
                s.push_str(*r.pick(&["", "A", "\x1b[2;3H", "\x1b[1mB"]));
                st.bump("long_control_strings");
                continue;
            }
            let tok = if volume && r.chance(2, 3) {
                // mostly printable text: every character is a function of its own, and losing one
                // shifts everything after it
                let len = 20 + r.usize_below(60);
                (0..len).map(|_| (b'!' + r.below(90) as u8) as char).collect::<String>()
            } else if r.chance(1, 5) {
                gen_token(r, 10, 5, &Profile::chaos()).1
            } else {
                c03_token(r)
            };
            if r.chance(1, 4) {
                // truncation fault + resynchronisation: cut the token, follow it by a resync
                // character (or nothing), then an intact token follows in the next round
                let cs: Vec<char> = tok.chars().collect();
                if cs.len() > 1 {
                    let k = 1 + r.usize_below(cs.len() - 1);
                    s.extend(cs[..k].iter());
                    s.push_str(*r.pick(&["\x18", "\x1a", "\x1b", "\u{9b}", "\u{9c}", "\x07", "", "\u{90}", "\u{9d}", "\x1b\\"]));
                    st.bump("truncated_tokens");
                    continue;
                }
            }
            count += tok.chars().count();
            s.push_str(&tok);
        }
        let mut t = Trace::new("C03", Config { cols: 2 + r.usize_below(12), rows: 2 + r.usize_below(5), limit: None });
        t.events.push(Event::Feed { s });
        t
    }
    fn execute(&self, t: &Trace, st: &mut Stats, _ctx: &Ctx) -> Verdict {
        let chars: Vec<char> = t
            .events
            .iter()
            .flat_map(|e| match e {
                Event::FeedStr { s, .. } | Event::Feed { s } | Event::Inert { s, .. } => s.chars().collect::<Vec<_>>(),
                _ => vec![],
            })
            .collect();
        let n = chars.len();
        let mut local = Stats::default();
        let r = catch_avt(|| lockstep(&chars, &mut local, true));
        st.merge(&local);
        st.add("characters_compared", n as u64);
        match r {
            Err(p) => Verdict::Violation { rule: "C03/panic".into(), detail: p },
            Ok(Some((rule, d))) => Verdict::Violation { rule, detail: d },
            Ok(None) => {
                // end-to-end: a terminal fed the stream in arbitrary feed_str pieces must end up in
                // the same visible state as one fed, function by function, the canonical rendering
                // of what the reference parser dispatched
                if n <= 600 || (n >= 17_000 && n <= 60_000) {
                    let cfg = &t.config;
                    let e2e = catch_avt(|| {
                        let mut a = crate::obs::build(cfg.cols.max(2), cfg.rows.max(2), None);
                        let mut i = 0usize;
                        let mut k = 1usize;
                        while i < chars.len() {
                            // deterministic but irregular piece lengths
                            k = (k * 7 + 3) % 11 + 1;
                            let e = (i + k).min(chars.len());
                            let piece: String = chars[i..e].iter().collect();
                            a.feed_str(&piece);
                            i = e;
                        }
                        let mut b = crate::obs::build(cfg.cols.max(2), cfg.rows.max(2), None);
                        let mut rp = RefParser::new();
                        for ch in &chars {
                            if let Some(rf) = rp.feed(*ch) {
                                b.feed_str(&crate::model::parser::render(&rf));
                            }
                        }
                        // ... and as one fed the whole stream in a single feed_str call
                        let mut c = crate::obs::build(cfg.cols.max(2), cfg.rows.max(2), None);
                        let whole: String = chars.iter().collect();
                        c.feed_str(&whole);
                        if let Some(d) = crate::obs::same_screen(&a, &c) {
                            return Some(format!("(pieces vs one feed_str call of {} characters) {}", chars.len(), d));
                        }
                        crate::obs::same_screen(&a, &b)
                    });
                    match e2e {
                        Err(p) => return Verdict::Violation { rule: "C03/panic-end-to-end".into(), detail: p },
                        Ok(Some(d)) => return Verdict::Violation { rule: "C03/end-to-end".into(), detail: format!("Vt fed the stream in pieces vs Vt fed the canonical rendering of the reference parser's functions: {}", d) },
                        Ok(None) => st.bump("end_to_end_compared"),
                    }
                }
                let mut d = crate::rng::Digest::new();
                for c in &chars {
                    d.u64(*c as u64);
                }
                Verdict::Pass { digest: d.0, nontrivial: n >= 2 }
            }
        }
    }
    fn extra_phase(&self, tier: Tier, st: &mut Stats) -> Result<Value, (String, String, Trace)> {
        self.table_phase(tier, st)
    }
    fn meta(&self) -> Meta {
        Meta {
            rule: "parser-level lock-step of avt::parser::Parser with the reference parser, comparing after every character the public state and the returned Function (structurally): (a) single-step table over all scalar values x 14 states x backgrounds (enumerated, see extra_phase), each step followed by a dispatching final byte and CAN + fresh CUP/SGR; ESC Fe vs C1 twins from every state; (b) sampled sequence streams: all finals 0x40-0x7E x prefixes ? ! < = > x 0-2 intermediates x parameter shapes (empty, ;, :, 33+ parameters, 7+ sub-parts, 65535/65536/10^10), ESC finals, SGR colour forms incl. truncated ones, C0/C1 inside sequences, control strings incl. payloads of 4090..20000 characters, chaos tokens, rare volume streams of 17000..37000+ characters; (d) end-to-end: a Vt fed the stream in irregular feed_str pieces vs a Vt fed the canonical rendering of each function the reference parser dispatched - and vs a Vt fed the whole stream in one feed_str call - same visible screen, cursor, cursor-key mode (streams <= 600 characters and volume streams); (c) truncation faults followed by CAN / SUB / ESC / C1 / ST / BEL / nothing and then intact tokens (resynchronisation, stale-parameter leakage); non-trivial = stream of >= 2 characters; distinct = stream digests",
            assumptions: vec!["the reference parser (table from Williams' diagram + the four stated deviations) is the trusted base", "colour components are truncated to 8 bits as avt does; values > 255 are outside the statement", "Charset is matched through its Debug name (type not nameable from outside)"],
            real: vec!["avt::parser::Parser", "avt::Vt (end-to-end twin)"],
            simulated: vec!["App (sequence producer)", "Pipe (truncation faults, resynchronisation characters)"],
            model: vec!["RefParser"],
            probes: vec!["truncated_tokens", "functions_compared", "table_single_steps", "esc_fe_pairs", "end_to_end_compared", "long_control_strings", "volume_streams"],
            fault_kinds: vec!["truncated_tokens"],
        }
    }
}
