//! C18 - tab stops: defaults every 8 columns, editable, and correct across resizes.
use crate::gen::*;
use crate::obs::build;
use crate::rng::Rng;
use crate::runner::*;
use crate::sim::{catch_avt, replay_plain, Live};
use crate::trace::{Config, Drain, Event, Trace};
use avt::parser::Function;
use avt::Vt;
use std::collections::BTreeSet;

pub struct C18;

/// Measurement sweep on a fork: CR, then HT until the last column; returns the columns visited.
fn sweep_forward(vt: &mut Vt, cols: usize) -> Vec<usize> {
    vt.feed_str("\r");
    let mut out = vec![];
    for _ in 0..cols + 2 {
        vt.feed_str("\t");
        let c = vt.cursor().col;
        out.push(c);
        if c >= cols - 1 {
            break;
        }
    }
    out
}

fn sweep_backward(vt: &mut Vt, cols: usize) -> Vec<usize> {
    vt.feed_str("\x1b[65535C\x1b[65535C");
    let mut out = vec![];
    for _ in 0..cols + 2 {
        vt.feed_str("\x1b[Z");
        let c = vt.cursor().col;
        out.push(c);
        if c == 0 {
            break;
        }
    }
    out
}

fn expected_forward(tabs: &BTreeSet<usize>, cols: usize) -> Vec<usize> {
    let mut out: Vec<usize> = tabs.iter().copied().filter(|t| *t > 0 && *t < cols).collect();
    if out.last() != Some(&(cols - 1)) {
        out.push(cols - 1);
    }
    if cols == 1 {
        out = vec![0];
    }
    out
}

fn expected_backward(tabs: &BTreeSet<usize>, cols: usize) -> Vec<usize> {
    // starting from the last column
    let mut out: Vec<usize> = tabs.iter().rev().copied().filter(|t| *t < cols - 1).collect();
    if out.last() != Some(&0) {
        out.push(0);
    }
    out
}

impl Check for C18 {
    fn id(&self) -> &'static str {
        "C18"
    }
    fn runs(&self, tier: Tier) -> u64 {
        match tier {
            Tier::Quick => 500_000,
            Tier::Thorough => 10_000_000,
        }
    }
    fn generate(&self, r: &mut Rng, _tier: Tier, st: &mut Stats) -> Trace {
        let width = |r: &mut Rng| -> usize {
            if r.chance(1, 400) {
                // beyond the 16-bit range: stops at columns that no single CHA can address
                return *r.pick(&[65_535usize, 65_536, 65_537, 66_000, 70_000]);
            }
            match r.below(4) {
                0 => {
                    let k = 8 * (1 + r.usize_below(17));
                    (k + r.usize_below(3)).saturating_sub(1).max(1)
                }
                1 => 1 + r.usize_below(12),
                _ => 1 + r.usize_below(140),
            }
        };
        let cols = width(r);
        let rows = 1 + r.usize_below(3);
        let cfg = Config { cols, rows, limit: *r.pick(&[None, Some(0)]) };
        let customise = r.chance(3, 5);
        let mut evs = vec![];
        let mut c = cols;
        let steps = 1 + r.usize_below(10);
        for _ in 0..steps {
            match r.below(10) {
                0..=3 => {
                    let c2 = match r.below(4) {
                        0 => if c > 150 { c + 8 } else { (c + 8).min(150) },
                        1 => c.saturating_sub(1 + r.usize_below(9)).max(1),
                        _ => width(r),
                    };
                    let r2 = if r.chance(1, 4) { 1 + r.usize_below(3) } else { rows };
                    evs.push(Event::Resize { cols: c2, rows: r2, drain: Drain::All });
                    c = c2;
                    st.bump("resize_events");
                }
                4..=7 if customise => {
                    // place the cursor somewhere (incl. column 0 and wrap-pending), then set / clear
                    let place = match r.below(6) {
                        _ if c > 65_536 && r.chance(1, 2) => format!("\x1b[65535G\x1b[{}C", r.usize_below(c - 65_535)),
                        0 => "\r".to_string(),
                        1 => format!("\r{}", "x".repeat(c)), // wrap pending
                        2 => format!("\x1b[{}G", c),
                        _ => format!("\x1b[{}G", 1 + r.usize_below(c + 1)),
                    };
                    let op = *r.pick(&["\x1bH", "\u{88}", "\x1b[W", "\x1b[0W", "\x1b[2W", "\x1b[g", "\x1b[0g", "\x1b[5W", "\x1b[3g", "\x1bH", "\x1bH"]);
                    evs.push(Event::Feed { s: format!("{}{}", place, op) });
                }
                8 => {
                    // tab movement with counts in the history itself
                    let n = r.usize_below(5);
                    evs.push(Event::Feed { s: format!("\r\x1b[{}I\x1b[{}Z\t", n, r.usize_below(4)) });
                }
                _ => {
                    evs.push(Event::Feed { s: (*r.pick(&["abc", "\r\n", "\x1b[?1049h", "\x1b[?1049l", "\x1b[!p", "\x1b[2;3r", "\x1b[?6h", "\x1bc", "\x1bc"])).to_string() });
                }
            }
        }
        evs.push(Event::Observe);
        let mut t = Trace::new("C18", cfg);
        t.events = evs;
        t
    }
    fn execute(&self, t: &Trace, st: &mut Stats, _ctx: &Ctx) -> Verdict {
        let res = catch_avt(|| -> Verdict {
            let mut live = Live::new(&t.config);
            let mut customised = false;
            let mut resized = false;
            let mut measured = 0u64;
            let mut dg = crate::rng::Digest::new();
            for (i, e) in t.events.iter().enumerate() {
                match e {
                    Event::FeedStr { s, drain } => {
                        // per character, so that the tracker sees the exact cursor column at HTS/TBC
                        for ch in s.chars() {
                            let rep = live.apply(&Event::Feed { s: ch.to_string() });
                            if rep.funcs.iter().any(|f| matches!(f, Function::Hts | Function::Ctc(_) | Function::Tbc(_))) {
                                customised = true;
                            }
                        }
                        let _ = drain;
                    }
                    Event::Feed { s } => {
                        for ch in s.chars() {
                            let rep = live.apply(&Event::Feed { s: ch.to_string() });
                            if rep.funcs.iter().any(|f| matches!(f, Function::Hts | Function::Ctc(_) | Function::Tbc(_))) {
                                customised = true;
                            }
                        }
                    }
                    Event::Resize { .. } => {
                        live.apply(e);
                        resized = true;
                    }
                    _ => {}
                }
                if live.ris_count > 0 {
                    customised = false;
                    live.ris_count = 0;
                }
                let last = i + 1 == t.events.len();
                if !(matches!(e, Event::Observe) || last) {
                    continue;
                }
                if live.parser.state != avt::parser::State::Ground {
                    continue; // the measurement sweep would complete a pending sequence
                }
                // ---- measurement on forks (fork = replay of the prefix) ----
                let (cols, _rows) = live.vt.size();
                let prefix = &t.events[..=i];
                let model = live.hid.tabs.clone();
                let mut f1 = replay_plain(&t.config, prefix);
                let fwd = sweep_forward(&mut f1, cols);
                let mut f2 = replay_plain(&t.config, prefix);
                let bwd = sweep_backward(&mut f2, cols);
                measured += 1;
                dg.u64(cols as u64);
                for x in &fwd {
                    dg.u64(*x as u64);
                }
                if cols % 8 == 0 {
                    st.bump("measured_at_multiple_of_8");
                }
                if customised {
                    st.bump("measured_customised");
                }
                if resized {
                    st.bump("measured_after_resize");
                }
                let ef = expected_forward(&model, cols);
                if fwd != ef {
                    return Verdict::Violation { rule: "C18/stops-forward".into(), detail: format!("after event #{} at width {}: HT visits {:?}, the stated rules give {:?}", i, cols, fwd, ef) };
                }
                let eb = expected_backward(&model, cols);
                if bwd != eb {
                    return Verdict::Violation { rule: "C18/stops-backward".into(), detail: format!("after event #{} at width {}: CBT from the last column visits {:?}, the stated rules give {:?}", i, cols, bwd, eb) };
                }
                // counts: CHT n / CBT n
                for n in [2usize, 3, 7] {
                    let mut f3 = replay_plain(&t.config, prefix);
                    f3.feed_str(&format!("\r\x1b[{}I", n));
                    let got = f3.cursor().col;
                    let want = ef.get(n - 1).copied().unwrap_or(cols - 1);
                    if got != want {
                        return Verdict::Violation { rule: "C18/cht-count".into(), detail: format!("width {}: CR CHT {} lands on {}, expected {}", cols, n, got, want) };
                    }
                    f3.feed_str(&format!("\x1b[65535C\x1b[65535C\x1b[{}Z", n));
                    let got = f3.cursor().col;
                    let want = eb.get(n - 1).copied().unwrap_or(0);
                    if got != want {
                        return Verdict::Violation { rule: "C18/cbt-count".into(), detail: format!("width {}: CBT {} from the last column lands on {}, expected {}", cols, n, got, want) };
                    }
                }
                // twin: a never-customised terminal tabs like a fresh one of the current width
                if !customised {
                    let mut fresh = build(cols, live.vt.size().1, t.config.limit);
                    let ff = sweep_forward(&mut fresh, cols);
                    st.bump("fresh_twin_compared");
                    if ff != fwd {
                        return Verdict::Violation { rule: "C18/fresh-twin".into(), detail: format!("never customised, width {} after resizes: HT visits {:?}, a fresh terminal {:?}", cols, fwd, ff) };
                    }
                }
            }
            if measured == 0 {
                return Verdict::Skip;
            }
            Verdict::Pass { digest: dg.0, nontrivial: resized || customised }
        });
        match res {
            Ok(v) => v,
            Err(_) => {
                st.bump("runs_abandoned_on_panic");
                Verdict::Skip
            }
        }
    }
    fn meta(&self) -> Meta {
        Meta {
            rule: "widths 1..150 biased to 8k-1, 8k, 8k+1, rarely 65535..70000 (also as resize targets); HTS / CTC set and TBC / CTC clear at random columns incl. column 0 and the wrap-pending column; chains of resizes (widening by 8, narrowing, random); RIS and DECSTR in between; then a measurement sweep on forks: CR + HT until the last column, CBT back from the last column, CHT n / CBT n for n in {2,3,7}; oracle: stops visited == the set model (defaults every 8th column, narrowing drops stops >= new width, widening adds every multiple of 8 in [old, new) and keeps survivors); twin: a never-customised terminal tabs like a fresh one of the current width; non-trivial = a measurement after a resize or a customisation; distinct = (width, stops visited)",
            assumptions: vec!["the column at which HTS / TBC act is the cursor column observed after the previous character (per-character delivery)", "a stop on the last column is indistinguishable from 'no further stop' and treated so", "a run in which avt panics is abandoned"],
            real: vec!["avt::Vt", "avt::parser::Parser (lock-step)"],
            simulated: vec!["App (tab set/clear producer)", "Window (resize chains)", "measurement forks (replay of the event prefix)"],
            model: vec!["tab-stop set of the hidden-state tracker"],
            probes: vec!["measured_at_multiple_of_8", "measured_customised", "measured_after_resize", "fresh_twin_compared", "resize_events"],
            fault_kinds: vec!["resize_events"],
        }
    }
}
