//! C06 - scrolling stays in its region and feeds the scrollback in order (refinement against the reference model, see modelrun.rs).
use super::modelrun::{self, Target};
use crate::rng::Rng;
use crate::runner::*;
use crate::trace::Trace;

pub struct C06;

impl Check for C06 {
    fn id(&self) -> &'static str {
        "C06"
    }
    fn runs(&self, tier: Tier) -> u64 {
        match tier {
            Tier::Quick => 600_000,
            Tier::Thorough => 8_000_000,
        }
    }
    fn generate(&self, r: &mut Rng, tier: Tier, st: &mut Stats) -> Trace {
        modelrun::generate(Target::Scroll, r, tier, st)
    }
    fn execute(&self, t: &Trace, st: &mut Stats, ctx: &Ctx) -> Verdict {
        modelrun::execute(Target::Scroll, t, st, ctx)
    }
    fn meta(&self) -> Meta {
        meta()
    }
}

fn meta() -> Meta {
    Meta {
        rule: "prints that auto-wrap on the bottom margin are judged as scrolls too (incl. inner bottom margins); screens of 65535..70000 rows with DECSTBM default bottom (1 run in 4000); in-domain sessions biased to scrolling (LF/VT/FF/IND/NEL on the bottom margin, RI on the top margin, SU, SD, IL, DL; counts 0, 1, < height, = height, > height, 65535; cursor above/inside/below the region; background pens; both screens; after resizes), one character per call; per step the whole observable state must equal the model's prediction: rows of the range shifted, vacated rows blank in the current pen, rows outside unchanged, scrollback grown by exactly the rows scrolled off a range starting at row 0 of the primary, in order - under a limit the rows handed out through that call's Changes.scrollback followed by the retained ones (each step's prediction starts from the previous observed scrollback, so loss, duplication or reordering within a run is caught at the step where it happens); non-trivial = >= 1 target step; distinct = digests of strata sequences",
        assumptions: vec!["reference model is the trusted base; ED 3 tolerated; on the alternate screen only the view is compared", "DECSTBM validity is observed through the next scroll (margins are hidden state)", "a run in which avt panics is abandoned"],
        real: vec!["avt::Vt", "avt::parser::Parser (lock-step)"],
        simulated: vec!["App", "Window"],
        model: vec!["RefTerm (full grid + scrollback)"],
        probes: vec!["target_steps", "steps_with_rows_handed_out", "scroll_with_region", "scroll_on_alternate", "scroll_top_anchored_partial", "scroll_with_background_pen", "scroll_cursor_outside_region", "target_steps_after_a_resize"],
        fault_kinds: vec!["resize_events", "resize_while_alternate", "resize_mid_sequence"],
    }
}
