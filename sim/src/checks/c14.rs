//! C14 - no scrolled-off line is lost, duplicated, reordered or altered.
use crate::gen::*;
use crate::obs::build;
use crate::rng::Rng;
use crate::runner::*;
use crate::sim::{catch_avt, gen_events, gen_events_anycut, GenStats, Live, SessionOpts};
use crate::trace::{Config, Drain, Event, Trace};
use avt::Line;

pub struct C14;

impl Check for C14 {
    fn id(&self) -> &'static str {
        "C14"
    }
    fn runs(&self, tier: Tier) -> u64 {
        match tier {
            Tier::Quick => 800_000,
            Tier::Thorough => 15_000_000,
        }
    }
    fn generate(&self, r: &mut Rng, tier: Tier, st: &mut Stats) -> Trace {
        let (mc, mr) = (24, 8);
        let (cols, rows) = gen_size(r, mc, mr);
        // None: the chunked twin may be unlimited too (then nothing may be handed out at all)
        let limit = *r.pick(&[Some(0), Some(0), Some(1), Some(2), Some(5), Some(9), Some(10), Some(11), Some(15), Some(20), Some(30), Some(40), Some(50), Some(100), Some(200), None]);
        let cfg = Config { cols, rows, limit };
        let mut p = if r.chance(1, 3) { Profile::chaos() } else { Profile::base() };
        p.fam[F_TEXT] = 40;
        p.fam[F_C0] = 25;
        p.fam[F_SCROLL] = 12;
        p.fam[F_ALT] = 5;
        p.fam[F_MARGINS] = 5;
        p.text_widths = 4;
        if r.chance(1, 2) {
            p = p.swarm(r);
            p.fam[F_TEXT] = p.fam[F_TEXT].max(10);
            p.fam[F_C0] = p.fam[F_C0].max(5);
        }
        p.allow_ris = false;
        p.resize_pm = 0;
        p.snapshot_pm = 0;
        p.observe_pm = 0;
        p.huge = false;
        p.bursts = limit.map(|l| l >= 40).unwrap_or(false) || r.chance(1, 10);
        p.max_tokens = if tier == Tier::Thorough && r.chance(1, 8) { 200 } else { 50 };
        let o = SessionOpts { profile: p, max_cols: mc, max_rows: mr };
        let policy = *r.pick(&CUT_POLICIES);
        let mut gs = GenStats::default();
        let mut evs = gen_events(r, &cfg, &o, policy, DrainPolicy::AlwaysAll, &mut gs);
        if r.chance(2, 3) {
            // make sure most sessions end on the primary screen
            evs.push(Event::FeedStr { s: (*r.pick(&["\x1b[?1047l", "\x1b[?1049l", "\x1b[?47l"])).to_string(), drain: Drain::All });
        }
        let (gc, gr) = super::max_geometry(&cfg, &evs);
        if let Some(v) = super::draw_volume(r, limit.is_some(), gc, gr) {
            // a volume string as one call of its own
            let s = super::volume_string(r, v);
            let at = r.usize_below(evs.len() + 1);
            let vevs = super::volume_events(&s, 1, r);
            evs.splice(at..at, vevs);
            st.bump("volume_runs");
            st.bump(match v {
                super::Volume::Lines17 => "volume_2p17_rows_in_one_call",
                super::Volume::Lines20 => "volume_2p20_rows_in_one_call",
                super::Volume::Rep20 => "volume_2p20_cells_repeated_in_one_call",
                super::Volume::Chars21 => "volume_2p21_characters_in_one_call",
            });
        }
        super::record_gen(st, &gs);
        super::count_events(st, &evs);
        let mut t = Trace::new("C14", cfg);
        t.events = evs;
        t
    }
    fn execute(&self, t: &Trace, st: &mut Stats, ctx: &Ctx) -> Verdict {
        if t.events.iter().any(|e| matches!(e, Event::Resize { .. })) {
            return Verdict::Skip;
        }
        if t.events.iter().any(|e| matches!(e, Event::FeedStr { drain, .. } if *drain != Drain::All)) {
            return Verdict::Skip; // what the consumer chooses to drop is not the library's loss
        }
        let whole: String = t
            .events
            .iter()
            .map(|e| match e {
                Event::FeedStr { s, .. } | Event::Feed { s } | Event::Inert { s, .. } => s.as_str(),
                _ => "",
            })
            .collect();
        // limited twin: the session as scheduled; collect everything handed out
        let ra = catch_avt(|| {
            let mut live = Live::new(&t.config);
            let mut handed: Vec<Line> = vec![];
            let mut calls_handing = 0u64;
            for e in &t.events {
                let rep = live.apply(e);
                if !rep.drained.is_empty() {
                    calls_handing += 1;
                }
                handed.extend(rep.drained);
            }
            (live, handed, calls_handing)
        });
        // unlimited twin: same characters, one feed_str
        let rb = catch_avt(|| {
            let mut u = build(t.config.cols, t.config.rows, None);
            u.feed_str(&whole);
            u
        });
        let ((live, handed, calls_handing), u) = match (ra, rb) {
            (Ok(a), Ok(b)) => (a, b),
            (Err(_), Err(_)) => {
                st.bump("runs_abandoned_on_panic");
                return Verdict::Skip;
            }
            (Err(p), _) => return Verdict::Violation { rule: "C14/panic-one-side".into(), detail: format!("limited terminal panicked ({}), unlimited did not", p) },
            (_, Err(p)) => return Verdict::Violation { rule: "C14/panic-one-side".into(), detail: format!("unlimited terminal panicked ({}), limited did not", p) },
        };
        if live.ris_count > 0 {
            st.bump("skipped_ris");
            return Verdict::Skip;
        }
        if live.hid.alt {
            st.bump("skipped_ends_on_alternate");
            return Verdict::Skip;
        }
        if t.config.limit.is_none() && !handed.is_empty() {
            return Verdict::Violation { rule: "C14/unlimited-hands-out".into(), detail: format!("a terminal with unlimited scrollback handed out {} lines through Changes.scrollback", handed.len()) };
        }
        let res = catch_avt(|| {
            let mut stream: Vec<&Line> = handed.iter().collect();
            stream.extend(live.vt.lines().iter());
            let ul = u.lines();
            if stream.len() != ul.len() {
                return Some(("C14/count", format!("handed out {} + final lines() {} = {} lines, unlimited terminal holds {}", handed.len(), live.vt.lines().len(), stream.len(), ul.len())));
            }
            for (i, (a, b)) in stream.iter().zip(ul.iter()).enumerate() {
                if *a != b {
                    return Some(("C14/line-differs", format!("line {} of the stream is {:?}, unlimited terminal has {:?}", i, a, b)));
                }
            }
            None
        });
        match res {
            Err(p) => return Verdict::Violation { rule: "C14/panic-query".into(), detail: p },
            Ok(Some((rule, d))) => return Verdict::Violation { rule: rule.into(), detail: format!("limit {:?}: {}", t.config.limit, d) },
            Ok(None) => {}
        }
        // TextCollector: same text for this limit + chunking as for unlimited + whole
        let tc = catch_avt(|| {
            let mut c1 = avt::util::TextCollector::new(build(t.config.cols, t.config.rows, t.config.limit));
            let mut out1: Vec<String> = vec![];
            for e in &t.events {
                match e {
                    Event::FeedStr { s, .. } | Event::Feed { s } | Event::Inert { s, .. } => out1.extend(c1.feed_str(s)),
                    _ => {}
                }
            }
            out1.extend(c1.flush());
            let mut c2 = avt::util::TextCollector::new(build(t.config.cols, t.config.rows, None));
            let mut out2: Vec<String> = c2.feed_str(&whole).collect();
            out2.extend(c2.flush());
            (out1, out2)
        });
        match tc {
            Err(_) => {
                st.bump("collector_panicked");
                return Verdict::Skip;
            }
            Ok((o1, o2)) => {
                if o1 != o2 {
                    // known finding F7: flush() strips trailing empty lines only from what the
                    // collector still holds; empty lines already streamed out are not retracted
                    let strip = |v: &Vec<String>| -> Vec<String> {
                        let mut v = v.clone();
                        while v.last().map(|s| s.is_empty()).unwrap_or(false) {
                            v.pop();
                        }
                        v
                    };
                    if strip(&o1) == strip(&o2) && ctx.open_matchers.contains("c14_text_collector_trailing_empty_lines") {
                        return Verdict::Known { finding: "c14_text_collector_trailing_empty_lines".into() };
                    }
                    let i = o1.iter().zip(o2.iter()).position(|(a, b)| a != b).unwrap_or(o1.len().min(o2.len()));
                    return Verdict::Violation { rule: "C14/text-collector".into(), detail: format!("TextCollector text differs at line {} ({} vs {} lines): {:?} vs {:?}", i, o1.len(), o2.len(), o1.get(i), o2.get(i)) };
                }
            }
        }
        if calls_handing > 0 {
            st.bump("runs_with_handed_out_lines");
        }
        if calls_handing > 1 {
            st.bump("runs_with_several_trims");
        }
        let mut d = crate::rng::Digest::new();
        d.u64(crate::obs::screen_digest(&live.vt));
        d.u64(handed.len() as u64);
        Verdict::Pass { digest: d.0, nontrivial: !handed.is_empty() || u.lines().len() > t.config.rows }
    }
    fn meta(&self) -> Meta {
        Meta {
            rule: "volume faults (1 run in ~1400: one feed_str call scrolling 2^17+ / 2^20+ rows off, 17-20 x REP 65535, or 2^21+ characters); sessions without RIS and without resize that end on the primary screen (alternate-screen excursions, scroll regions, DL on row 0, top-anchored partial scrolls, garbage tokens), limit L in {0,1,2,5,9,10,11,15,20,30,40,50,100,200, unlimited} (line-feed bursts of 1150-4000 rows with the larger limits), every cut policy, full drain; oracle: lines drained from every Changes.scrollback ++ final lines() == lines() of an unlimited terminal fed the same characters in one call (order, count, Line == Line), and util::TextCollector gives the same text; non-trivial = at least one line scrolled off; distinct = (final screen, number of handed-out lines)",
            assumptions: vec!["runs that contain a RIS, end on the alternate screen, contain a resize or a non-full drain are skipped (outside the statement)", "a panic on both sides is C01's subject"],
            real: vec!["avt::Vt (both twins)", "avt::util::TextCollector (both twins)", "avt::parser::Parser (lock-step, RIS / alternate detection)"],
            simulated: vec!["App (scroll-heavy)", "Pipe (cuts, feed() loops)", "Consumer (full drain)"],
            model: vec!["hidden-state tracker: alternate-screen flag"],
            probes: vec!["runs_with_handed_out_lines", "runs_with_several_trims", "feed_char_calls"],
            fault_kinds: vec!["feed_str_calls", "feed_char_calls", "damaged_tokens"],
        }
    }
}
