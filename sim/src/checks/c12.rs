//! C12 - the result is independent of how the input stream is chunked.
use crate::gen::*;
use crate::obs::{build, same_screen, screen_digest};
use crate::rng::Rng;
use crate::runner::*;
use crate::sim::{catch_avt, gen_events, gen_events_anycut, GenStats, Live, SessionOpts};
use crate::trace::{Config, Drain, Event, Trace};

pub struct C12;

/// index of the first event of the maximal suffix of feed events (the string under test)
fn suffix_start(evs: &[Event]) -> usize {
    let mut i = evs.len();
    while i > 0 && matches!(evs[i - 1], Event::FeedStr { .. } | Event::Feed { .. }) {
        i -= 1;
    }
    i
}

impl Check for C12 {
    fn id(&self) -> &'static str {
        "C12"
    }
    fn runs(&self, tier: Tier) -> u64 {
        match tier {
            Tier::Quick => 1_000_000,
            Tier::Thorough => 20_000_000,
        }
    }
    fn generate(&self, r: &mut Rng, tier: Tier, st: &mut Stats) -> Trace {
        let big = tier == Tier::Thorough && r.chance(1, 20);
        let (mc, mr) = if big { (132, 50) } else { (40, 12) };
        let cfg = gen_config(r, mc, mr, true);
        let mut p = if r.chance(1, 2) { Profile::chaos() } else { Profile::base() };
        if r.chance(2, 3) {
            p = p.swarm(r);
        }
        p.snapshot_pm = 0;
        p.observe_pm = 0;
        p.intra_pct = 0;
        p.max_tokens = if big { 100 } else { 30 };
        // shared prefix (may contain resizes), then the string under test (no environment events)
        let mut gs = GenStats::default();
        let o = SessionOpts { profile: p.clone(), max_cols: mc, max_rows: mr };
        let mut evs = if r.chance(1, 2) { gen_events_anycut(r, &cfg, &o, DrainPolicy::AlwaysAll, &mut gs) } else { vec![] };
        let (mut c, mut rw) = (cfg.cols, cfg.rows);
        for e in &evs {
            if let Event::Resize { cols, rows, .. } = e {
                c = *cols;
                rw = *rows;
            }
        }
        if !evs.is_empty() && !matches!(evs.last(), Some(Event::Resize { .. })) {
            // separate prefix and string under test by a resize to the current size (a no-op
            // geometry-wise, but it ends the prefix)
            evs.push(Event::Resize { cols: c, rows: rw, drain: Drain::All });
        }
        let mut p2 = p;
        p2.resize_pm = 0;
        let o2 = SessionOpts { profile: p2, max_cols: mc, max_rows: mr };
        let cfg2 = Config { cols: c, rows: rw, limit: cfg.limit };
        let policy = *r.pick(&[CutPolicy::TokenAligned, CutPolicy::RandomK, CutPolicy::RandomK, CutPolicy::EveryChar, CutPolicy::FeedLoop, CutPolicy::Mixed, CutPolicy::Mixed]);
        let dp = *r.pick(&[DrainPolicy::AlwaysAll, DrainPolicy::Mixed]);
        let mut tail = gen_events(r, &cfg2, &o2, policy, dp, &mut gs);
        let (gc, gr) = super::max_geometry(&cfg, &evs);
        if let Some(v) = super::draw_volume(r, true, gc, gr) {
            // a volume string inside the string under test, in 2-4 pieces (the twin gets one call);
            // without a scrollback limit it is sent to the alternate screen (nothing is retained)
            let mut s = super::volume_string(r, v);
            if cfg.limit.is_none() && v != super::Volume::Rep20 {
                s = format!("\x1b[?1049h{}{}", s, r.pick(&["", "\x1b[?1049l"]));
            }
            let k = 2 + r.usize_below(3);
            let at = r.usize_below(tail.len() + 1);
            let vevs = super::volume_events(&s, k, r);
            tail.splice(at..at, vevs);
            st.bump("volume_runs");
            st.bump(match v {
                super::Volume::Lines17 => "volume_2p17_rows_in_one_call",
                super::Volume::Lines20 => "volume_2p20_rows_in_one_call",
                super::Volume::Rep20 => "volume_2p20_cells_repeated_in_one_call",
                super::Volume::Chars21 => "volume_2p21_characters_in_one_call",
            });
        }
        evs.extend(tail);
        if r.chance(1, 2) {
            // equal states must have equal futures: a shared continuation (input and - where trim
            // timing cannot legitimately differ - resizes) after the string under test
            evs.push(Event::Snapshot);
            let mut p3 = o2.profile.clone();
            p3.max_tokens = 6;
            p3.resize_pm = if cfg.limit.is_none() { 250 } else { 0 };
            let o3 = SessionOpts { profile: p3, max_cols: mc, max_rows: mr };
            let cont = gen_events(r, &cfg2, &o3, CutPolicy::TokenAligned, DrainPolicy::AlwaysAll, &mut gs);
            evs.extend(cont);
            st.bump("runs_with_continuation");
        }
        super::record_gen(st, &gs);
        super::count_events(st, &evs);
        let mut t = Trace::new("C12", cfg);
        t.events = evs;
        t
    }
    fn execute(&self, t: &Trace, st: &mut Stats, ctx: &Ctx) -> Verdict {
        // an optional Snapshot marker separates the string under test from a shared continuation
        let m = t.events.iter().position(|e| matches!(e, Event::Snapshot)).unwrap_or(t.events.len());
        let (main, cont): (&[Event], &[Event]) = (&t.events[..m], if m < t.events.len() { &t.events[m + 1..] } else { &[] });
        let main_trace;
        let t = if m < t.events.len() {
            let mut tt = t.clone();
            tt.events = main.to_vec();
            main_trace = tt;
            &main_trace
        } else {
            t
        };
        let k = suffix_start(&t.events);
        let whole: String = t.events[k..]
            .iter()
            .map(|e| match e {
                Event::FeedStr { s, .. } | Event::Feed { s } => s.as_str(),
                _ => "",
            })
            .collect();
        let pieces = t.events.len() - k;
        if pieces < 2 && !matches!(t.events.last(), Some(Event::Feed { .. })) {
            return Verdict::Skip; // nothing is chunked
        }
        // shared prefix: identical events for both twins; a panic there is C01's subject
        let prefix = catch_avt(|| {
            let mut a = Live::new(&t.config);
            let mut b = build(t.config.cols, t.config.rows, t.config.limit);
            for e in &t.events[..k] {
                a.apply(e);
                Live::apply_plain(&mut b, e);
            }
            (a, b)
        });
        let Ok((mut a, mut b)) = prefix else {
            st.bump("runs_abandoned_on_panic");
            return Verdict::Skip;
        };
        let ra = catch_avt(|| {
            let mut last_is_feed_loop = false;
            for e in &t.events[k..] {
                a.apply(e);
                last_is_feed_loop = matches!(e, Event::Feed { .. });
            }
            last_is_feed_loop
        });
        let rb = catch_avt(|| {
            b.feed_str(&whole);
        });
        let last_is_feed_loop = match (ra, rb) {
            (Ok(x), Ok(())) => x,
            (Err(_), Err(_)) => {
                st.bump("runs_abandoned_on_panic");
                return Verdict::Skip;
            }
            (Err(p), Ok(())) => return Verdict::Violation { rule: "C12/panic-one-side".into(), detail: format!("the chunked delivery panicked ({}), one feed_str of the whole did not", p) },
            (Ok(_), Err(p)) => return Verdict::Violation { rule: "C12/panic-one-side".into(), detail: format!("one feed_str of the whole panicked ({}), the chunked delivery did not", p) },
        };
        if a.parser.state != avt::parser::State::Ground {
            st.bump("string_ends_mid_sequence");
        }
        let cmp = catch_avt(|| {
            if let Some(d) = same_screen(&a.vt, &b) {
                return Some(("C12/screen", d));
            }
            let (da, db) = (a.vt.dump(), b.dump());
            if da != db {
                return Some(("C12/modes", format!("dump() differs: {:?} vs {:?}", da, db)));
            }
            if t.config.limit.is_none() {
                let (la, lb) = (a.vt.lines(), b.lines());
                if la != lb {
                    // known finding F6: a pure feed() loop never collects garbage, so while the
                    // alternate screen scrolls lines() keeps rows that feed_str drops
                    if a.hid.alt && last_is_feed_loop && la.len() > lb.len() && la[la.len() - lb.len()..] == *lb && ctx.open_matchers.contains("c12_feed_loop_no_gc_on_alternate") {
                        return Some(("KNOWN", "c12_feed_loop_no_gc_on_alternate".to_string()));
                    }
                    return Some(("C12/lines", format!("lines() differs: {} lines vs {} lines", la.len(), lb.len())));
                }
            }
            None
        });
        match cmp {
            Err(p) => Verdict::Violation { rule: "C12/panic-query".into(), detail: p },
            Ok(Some(("KNOWN", m))) => Verdict::Known { finding: m },
            Ok(Some((rule, d))) => Verdict::Violation { rule: rule.into(), detail: format!("{} pieces vs one feed_str of {} chars: {}", pieces, whole.chars().count(), d) },
            Ok(None) => {
                // shared continuation: the twins must stay equal after every further event
                for (ci, e) in cont.iter().enumerate() {
                    if matches!(e, Event::Snapshot | Event::Observe) {
                        continue;
                    }
                    if t.config.limit.is_some() && matches!(e, Event::Resize { .. }) {
                        break; // see meta(): not required to agree past this point
                    }
                    let ra = catch_avt(|| {
                        a.apply(e);
                    });
                    let rb = catch_avt(|| Live::apply_plain(&mut b, e));
                    match (ra, rb) {
                        (Ok(()), Ok(())) => {}
                        (Err(_), Err(_)) => {
                            st.bump("runs_abandoned_on_panic");
                            return Verdict::Skip;
                        }
                        (Err(p), _) | (_, Err(p)) => return Verdict::Violation { rule: "C12/panic-one-side".into(), detail: format!("continuation event {}: only one twin panicked: {}", ci, p) },
                    }
                    let c2 = catch_avt(|| {
                        if let Some(d) = same_screen(&a.vt, &b) {
                            return Some(("C12/continuation-screen", d));
                        }
                        let (da, db) = (a.vt.dump(), b.dump());
                        if da != db {
                            return Some(("C12/continuation-modes", format!("dump() differs: {:?} vs {:?}", da, db)));
                        }
                        if t.config.limit.is_none() && a.vt.lines() != b.lines() {
                            return Some(("C12/continuation-lines", format!("lines() differs: {} vs {} lines", a.vt.lines().len(), b.lines().len())));
                        }
                        None
                    });
                    match c2 {
                        Err(p) => return Verdict::Violation { rule: "C12/panic-query".into(), detail: p },
                        Ok(Some((rule, d))) => {
                            return Verdict::Violation { rule: rule.into(), detail: format!("after the chunked / whole deliveries agreed, continuation event {} ({}) made them differ: {}", ci, crate::trace::event_brief(e).chars().take(50).collect::<String>(), d) }
                        }
                        Ok(None) => {}
                    }
                    st.bump("continuation_events_compared");
                }
                if last_is_feed_loop {
                    st.bump("feed_loop_tail");
                }
                if a.hid.alt {
                    st.bump("ended_on_alternate");
                }
                Verdict::Pass { digest: screen_digest(&a.vt), nontrivial: pieces >= 2 && whole.chars().count() >= 2 }
            }
        }
    }
    fn meta(&self) -> Meta {
        Meta {
            rule: "volume faults (1 run in ~1400: 2^17+ or 2^20+ rows scrolled off, 17-20 x REP 65535, or 2^21+ characters inside the string under test, in 2-4 pieces vs one call); a shared prefix history (may contain resizes), then one string delivered (A) as the generated series of feed_str pieces / feed(char) loops, cut anywhere, and (B) as one feed_str; compared: view (cells, pens, wrap marks), cursor, cursor-key mode, dump() (modes; same build, same state) and - with unlimited scrollback - lines(); in half of the runs a shared continuation (input; resizes only with unlimited scrollback, because under a limit the amount of retained scrollback may legitimately differ and a resize would expose it) follows and the twins must stay equal after each of its events; non-trivial = >= 2 pieces and >= 2 characters; distinct = final-screen digests",
            assumptions: vec!["with a scrollback limit lines() is not compared (trim timing is legitimately different; C14 covers the stream)", "a panic on both sides / in the shared prefix is C01's subject; a panic on one side only is a violation"],
            real: vec!["avt::Vt (both twins)", "avt::parser::Parser (lock-step)"],
            simulated: vec!["App", "Pipe (cut sets, feed() loops, damage)", "Window (prefix only)", "Consumer"],
            model: vec!["hidden-state tracker: alternate-screen flag for the F6 matcher"],
            probes: vec!["string_ends_mid_sequence", "feed_loop_tail", "ended_on_alternate", "feed_char_calls", "runs_with_continuation", "continuation_events_compared"],
            fault_kinds: vec!["feed_str_calls", "feed_char_calls", "damaged_tokens", "resize_events", "drain_partial", "drain_drop"],
        }
    }
}
