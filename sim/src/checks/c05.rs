//! C05 - cursor movement and addressing (refinement against the reference model, see modelrun.rs).
use super::modelrun::{self, Target};
use crate::rng::Rng;
use crate::runner::*;
use crate::trace::Trace;

pub struct C05;

impl Check for C05 {
    fn id(&self) -> &'static str {
        "C05"
    }
    fn runs(&self, tier: Tier) -> u64 {
        match tier {
            Tier::Quick => 600_000,
            Tier::Thorough => 8_000_000,
        }
    }
    fn generate(&self, r: &mut Rng, tier: Tier, st: &mut Stats) -> Trace {
        modelrun::generate(Target::Cursor, r, tier, st)
    }
    fn execute(&self, t: &Trace, st: &mut Stats, ctx: &Ctx) -> Verdict {
        modelrun::execute(Target::Cursor, t, st, ctx)
    }
    fn meta(&self) -> Meta {
        meta()
    }
}

fn meta() -> Meta {
    Meta {
        rule: "gigantic screens (10000..70000 columns or rows, 1 run in ~350) starting wrap-pending at the far right / on the last row, followed at once by a cursor function with an extreme count; in-domain sessions biased to cursor commands (every parameter class, start columns incl. wrap-pending, rows above/inside/below the region, origin on/off, valid and invalid margin pairs, after height / width-only resizes), one character per call; for every CUU CUD CUF CUB CNL CPL VPR HPR BS CR HT CHT CBT, LF/IND/NEL/RI off the margins, CUP/HVP CHA/HPA VPA, DECSTBM and DECOM the observed cursor must equal the model's prediction and cells, wrap marks and scrollback must be unchanged; non-trivial = >= 1 target step; distinct = digests of strata sequences",
        assumptions: vec!["reference model is the trusted base; tolerated: cursor after an invalid DECSTBM, CBT from wrap-pending with a stop on the last column", "tab stops come from the model's hidden state (C18 rule across resizes)", "a run in which avt panics is abandoned"],
        real: vec!["avt::Vt", "avt::parser::Parser (lock-step)"],
        simulated: vec!["App", "Window"],
        model: vec!["RefTerm (full grid)"],
        probes: vec!["target_steps", "cursor_step_origin_mode", "cursor_step_outside_region", "cursor_step_from_wrap_pending", "ri_off_margin", "target_steps_after_a_resize"],
        fault_kinds: vec!["resize_events", "resize_while_wrap_pending", "resize_mid_sequence"],
    }
}
