//! C13 - scrollback retention is bounded by the configured limit.
use crate::gen::*;
use crate::obs::screen_digest;
use crate::rng::Rng;
use crate::runner::*;
use crate::sim::{catch_avt, gen_events, gen_events_anycut, GenStats, Live, SessionOpts};
use crate::trace::{Config, Event, Trace};

pub struct C13;

impl Check for C13 {
    fn id(&self) -> &'static str {
        "C13"
    }
    fn runs(&self, tier: Tier) -> u64 {
        match tier {
            Tier::Quick => 800_000,
            Tier::Thorough => 15_000_000,
        }
    }
    fn generate(&self, r: &mut Rng, tier: Tier, st: &mut Stats) -> Trace {
        let (mc, mr) = (24, 8);
        let (cols, rows) = gen_size(r, mc, mr);
        let (cols, rows) = maybe_gigantic(r, (cols, rows));
        // the builder's default geometry (no size() call, see obs::build)
        let (cols, rows) = if r.chance(1, 40) { (80, 24) } else { (cols, rows) };
        let limit = *r.pick(&[Some(0), Some(0), Some(1), Some(2), Some(5), Some(9), Some(10), Some(11), Some(15), Some(20), Some(30), Some(100), Some(100), Some(1000), Some(1001), Some(1500), None]);
        let cfg = Config { cols, rows, limit };
        let mut p = Profile::chaos();
        // heavy scrolling
        p.fam[F_TEXT] = 40;
        p.fam[F_C0] = 25;
        p.fam[F_SCROLL] = 15;
        p.fam[F_ALT] = 6;
        p.text_widths = 4;
        if r.chance(1, 2) {
            p = p.swarm(r);
            p.fam[F_TEXT] = p.fam[F_TEXT].max(10);
        }
        p.resize_pm = *r.pick(&[0, 60, 120, 250]);
        p.snapshot_pm = 0;
        p.observe_pm = 0;
        p.max_tokens = if tier == Tier::Thorough && r.chance(1, 8) { 150 } else { 40 };
        p.huge = false;
        let o = SessionOpts { profile: p, max_cols: mc, max_rows: mr };
        let policy = *r.pick(&CUT_POLICIES);
        let dp = *r.pick(&[DrainPolicy::AlwaysAll, DrainPolicy::Mixed, DrainPolicy::Mixed, DrainPolicy::AlwaysDrop]);
        let mut gs = GenStats::default();
        let mut evs = gen_events(r, &cfg, &o, policy, dp, &mut gs);
        let (gc, gr) = super::max_geometry(&cfg, &evs);
        if let Some(v) = super::draw_volume(r, limit.is_some(), gc, gr) {
            // a volume string as one call of its own
            let s = super::volume_string(r, v);
            let at = r.usize_below(evs.len() + 1);
            let vevs = super::volume_events(&s, 1, r);
            evs.splice(at..at, vevs);
            st.bump("volume_runs");
            st.bump(match v {
                super::Volume::Lines17 => "volume_2p17_rows_in_one_call",
                super::Volume::Lines20 => "volume_2p20_rows_in_one_call",
                super::Volume::Rep20 => "volume_2p20_cells_repeated_in_one_call",
                super::Volume::Chars21 => "volume_2p21_characters_in_one_call",
            });
        }
        super::record_gen(st, &gs);
        super::count_events(st, &evs);
        let mut t = Trace::new("C13", cfg);
        t.events = evs;
        t
    }
    fn execute(&self, t: &Trace, st: &mut Stats, _ctx: &Ctx) -> Verdict {
        let res = catch_avt(|| {
            let mut live = Live::new(&t.config);
            let mut checked = 0u64;
            let mut peak = 0usize;
            let mut trimmed = false;
            for (i, e) in t.events.iter().enumerate() {
                let before = live.vt.lines().len();
                let was_alt = live.hid.alt;
                let rep = live.apply(e);
                // the Changes value of this call has been consumed or dropped by now
                if rep.lines.is_none() {
                    continue; // feed(char): no Changes, no bound stated
                }
                checked += 1;
                let n = live.vt.lines().len();
                let rows = live.vt.size().1;
                peak = peak.max(n.saturating_sub(rows));
                if rep.dropped_nonempty {
                    st.bump("iterator_dropped_with_items_left");
                }
                if !rep.drained.is_empty() {
                    trimmed = true;
                    st.bump("calls_that_trimmed");
                }
                if n < before && rep.drained.is_empty() {
                    st.bump("calls_that_trimmed_unseen");
                }
                let fail = |rule: &str, d: String| Verdict::Violation { rule: format!("C13/{}", rule), detail: format!("after event #{} ({}): {}", i, crate::trace::event_brief(e).chars().take(60).collect::<String>(), d) };
                if live.hid.alt {
                    st.bump("checked_on_alternate");
                    if n != rows {
                        return fail("alternate-keeps-lines", format!("alternate screen showing: lines().len() = {} != rows {}", n, rows));
                    }
                } else if let Some(l) = t.config.limit {
                    if was_alt {
                        st.bump("returned_to_primary");
                    }
                    let bound = rows + l + l / 10;
                    if n > bound {
                        return fail("bound-exceeded", format!("limit {}: lines().len() = {} > rows {} + {} + {}", l, n, rows, l, l / 10));
                    }
                    if l == 0 && n != rows {
                        return fail("limit-zero", format!("limit 0: lines().len() = {} != rows {}", n, rows));
                    }
                    if n == bound && l > 0 {
                        st.bump("bound_reached_exactly");
                    }
                }
                if matches!(e, Event::Resize { .. }) && n > before {
                    st.bump("resize_multiplied_rows");
                }
            }
            if let Some(l) = t.config.limit {
                if l >= 10 {
                    st.bump("runs_limit_ge_10");
                } else {
                    st.bump("runs_limit_lt_10");
                }
            }
            let mut d = crate::rng::Digest::new();
            d.u64(screen_digest(&live.vt));
            d.u64(peak as u64);
            Verdict::Pass { digest: d.0, nontrivial: checked > 0 && (trimmed || live.hid.alt || peak > 0) }
        });
        match res {
            Ok(v) => v,
            Err(_) => {
                st.bump("runs_abandoned_on_panic");
                Verdict::Skip
            }
        }
    }
    fn meta(&self) -> Meta {
        Meta {
            rule: "volume faults (1 run in ~1400: one feed_str call scrolling 2^17+ / 2^20+ rows off, 17-20 x REP 65535, or 2^21+ characters); terminals built through the builder with and without a size() call (80x24 default); scroll-heavy chaos sessions under every limit (0,1,2,5,9,10,11,15,20,30,100,1000,1001,1500,None; line-feed bursts of 1150-4000 and rarely 72200 rows), consumer draining all / k / nothing, narrowing resizes, alternate-screen excursions; after each feed_str/resize whose Changes is gone: lines().len() <= rows + L + L/10, == rows for L = 0, == rows while the alternate screen shows (known from the lock-step function stream); non-trivial = a trim fired, scrollback was non-empty or the run ended on the alternate screen; distinct = (final screen, peak scrollback) digests",
            assumptions: vec!["'alternate screen showing' is derived from the DECSET/DECRST/RIS functions the lock-step real parser dispatched", "no bound is stated after feed(char), none is checked", "a run in which avt panics is abandoned (C01's subject)"],
            real: vec!["avt::Vt", "avt::parser::Parser (lock-step)"],
            simulated: vec!["App (scroll-heavy)", "Pipe", "Window (narrowing resizes)", "Consumer (all / partial / drop)"],
            model: vec!["hidden-state tracker: alternate-screen flag"],
            probes: vec!["calls_that_trimmed", "iterator_dropped_with_items_left", "checked_on_alternate", "returned_to_primary", "runs_limit_ge_10", "runs_limit_lt_10", "resize_multiplied_rows", "drain_drop", "bound_reached_exactly"],
            fault_kinds: vec!["resize_events", "resize_while_alternate", "drain_partial", "drain_drop", "damaged_tokens", "feed_char_calls"],
        }
    }
}
