//! C17 - save/restore cursor round-trips the full context, per screen.
use crate::gen::*;
use crate::model::term::Saved;
use crate::obs::{conv_pen, screen_digest};
use crate::rng::Rng;
use crate::runner::*;
use crate::sim::{catch_avt, gen_events_anycut, replay_plain, GenStats, Live, SessionOpts};
use crate::trace::{Config, Drain, Event, Trace};
use avt::parser::{DecMode, Function};

pub struct C17;

#[derive(Clone, Copy, PartialEq, Eq, Debug)]
enum Kind {
    Save,
    Restore,
    /// ?1049l: switch to the primary screen, then restore from the primary's context
    RestorePrimary,
}

fn kind(f: &Function) -> Option<(Kind, &'static str)> {
    match f {
        Function::Decsc => Some((Kind::Save, "DECSC")),
        Function::Scosc => Some((Kind::Save, "SCOSC")),
        Function::Decrc => Some((Kind::Restore, "DECRC")),
        Function::Scorc => Some((Kind::Restore, "SCORC")),
        Function::Decset(ms) if ms.len() == 1 && matches!(ms[0], DecMode::SaveCursor) => Some((Kind::Save, "?1048h")),
        Function::Decset(ms) if ms.len() == 1 && matches!(ms[0], DecMode::SaveCursorAltScreenBuffer) => Some((Kind::Save, "?1049h")),
        Function::Decrst(ms) if ms.len() == 1 && matches!(ms[0], DecMode::SaveCursor) => Some((Kind::Restore, "?1048l")),
        Function::Decrst(ms) if ms.len() == 1 && matches!(ms[0], DecMode::SaveCursorAltScreenBuffer) => Some((Kind::RestorePrimary, "?1049l")),
        _ => None,
    }
}

impl Check for C17 {
    fn id(&self) -> &'static str {
        "C17"
    }
    fn runs(&self, tier: Tier) -> u64 {
        match tier {
            Tier::Quick => 500_000,
            Tier::Thorough => 8_000_000,
        }
    }
    fn generate(&self, r: &mut Rng, tier: Tier, st: &mut Stats) -> Trace {
        let big = tier == Tier::Thorough && r.chance(1, 25);
        let (mc, mr) = if big { (80, 24) } else { (20, 10) };
        let (cols, rows) = gen_size(r, mc, mr);
        let (cols, rows) = if r.chance(1, 400) { gigantic_size(r) } else { (cols, rows) };
        let cfg = Config { cols, rows, limit: *r.pick(&[None, None, Some(0), Some(3)]) };
        let mut p = Profile::base();
        p.fam[F_SAVE] = 30;
        p.fam[F_SGR] = 14;
        p.fam[F_MODES] = 14;
        p.fam[F_MARGINS] = 8;
        p.fam[F_ALT] = 10;
        p.fam[F_CURABS] = 12;
        p.fam[F_CURREL] = 10;
        p.fam[F_TEXT] = 16;
        p.fam[F_RESET] = 3;
        p.fam[F_STRINGS] = 1;
        p.fam[F_COMBO] = 8;
        if r.chance(1, 3) {
            p = p.swarm(r);
            p.fam[F_SAVE] = p.fam[F_SAVE].max(10);
        }
        p.allow_ris = r.chance(1, 4);
        p.resize_pm = *r.pick(&[0, 40, 120]);
        p.intra_pct = 20;
        p.huge = false;
        p.max_tokens = if big { 60 } else { 30 };
        let o = SessionOpts { profile: p, max_cols: mc, max_rows: mr };
        let mut gs = GenStats::default();
        let mut evs = gen_events_anycut(r, &cfg, &o, DrainPolicy::AlwaysAll, &mut gs);
        evs.push(Event::FeedStr { s: (*r.pick(&["\x1b8", "\x1b[u", "\x1b[?1048l", "\x1b[?1049l"])).to_string(), drain: Drain::All });
        super::record_gen(st, &gs);
        let mut t = Trace::new("C17", cfg);
        t.events = evs;
        t
    }
    fn execute(&self, t: &Trace, st: &mut Stats, _ctx: &Ctx) -> Verdict {
        let res = catch_avt(|| -> Verdict {
            let mut live = Live::new(&t.config);
            // has the terminal been resized since the last save on [primary, alternate]?
            let mut resized_since = [false, false];
            let mut restores = 0u64;
            let mut dg = crate::rng::Digest::new();
            for (ei, e) in t.events.iter().enumerate() {
                let s = match e {
                    Event::Resize { .. } => {
                        live.apply(e);
                        resized_since = [true, true];
                        continue;
                    }
                    Event::FeedStr { s, .. } | Event::Feed { s } | Event::Inert { s, .. } => s,
                    _ => continue,
                };
                let mut buf = [0u8; 4];
                for (k, ch) in s.chars().enumerate() {
                    let f = live.parser.feed(ch);
                    // expectations come from the tracker's state *before* the function executes
                    let pre_alt = live.hid.alt;
                    let pre_saved = live.hid.saved;
                    live.vt.feed_str(ch.encode_utf8(&mut buf));
                    let Some(f) = f else {
                        live.resync();
                        continue;
                    };
                    live.track(&f);
                    live.resync();
                    if matches!(f, Function::Ris | Function::Decstr) {
                        if matches!(f, Function::Ris) {
                            resized_since = [false, false];
                        } else {
                            resized_since[pre_alt as usize] = false;
                        }
                        st.bump("context_reset_by_decstr_or_ris");
                    }
                    let Some((kd, name)) = kind(&f) else { continue };
                    if kd == Kind::Save {
                        resized_since[pre_alt as usize] = false;
                        st.bump("saves");
                        continue;
                    }
                    let screen = if kd == Kind::RestorePrimary { 0 } else { pre_alt as usize };
                    let exp: Saved = pre_saved[screen];
                    let was_resized = resized_since[screen];
                    restores += 1;
                    st.bump("restores");
                    if exp == Saved::default() {
                        st.bump("restore_of_defaults");
                    }
                    if screen == 1 {
                        st.bump("restore_on_alternate");
                    }
                    if was_resized {
                        st.bump("restore_after_resize");
                    }
                    if pre_saved[0] != Saved::default() && pre_saved[1] != Saved::default() {
                        st.bump("restore_with_both_contexts_saved");
                    }
                    let (cols, rows) = live.vt.size();
                    let cur = live.vt.cursor();
                    dg.u64(cur.col as u64 ^ (cur.row as u64) << 8 ^ (screen as u64) << 16);
                    let ctx_s = format!("event #{} char {} {} on the {} screen ({}x{}), saved context {:?}", ei, k, name, if screen == 1 { "alternate" } else { "primary" }, cols, rows, exp);
                    if was_resized {
                        if cur.row >= rows || cur.col >= cols {
                            return Verdict::Violation { rule: "C17/position-outside-screen".into(), detail: format!("{}: restored position {},{} lies outside the screen", ctx_s, cur.col, cur.row) };
                        }
                    } else if (cur.col, cur.row) != (exp.col, exp.row) {
                        return Verdict::Violation { rule: "C17/position".into(), detail: format!("{}: cursor is {},{}", ctx_s, cur.col, cur.row) };
                    }
                    // probes on forks (fork = replay of the prefix up to and including this character)
                    let mut prefix: Vec<Event> = t.events[..ei].to_vec();
                    prefix.push(Event::FeedStr { s: s.chars().take(k + 1).collect(), drain: Drain::All });
                    // pen: the next printed cell
                    {
                        let mut fk = replay_plain(&t.config, &prefix);
                        // a restore clears the wrap-pending state, so the next character is written
                        // into the cell under the restored cursor (no wrap can intervene)
                        let pc = fk.cursor();
                        fk.feed_str("X");
                        let cell = fk.view()[pc.row.min(rows - 1)].cells()[pc.col.min(cols - 1)];
                        if cell.char() == 'X' {
                            let got = conv_pen(cell.pen());
                            if got != exp.pen {
                                return Verdict::Violation { rule: "C17/pen".into(), detail: format!("{}: the next printed cell carries {:?}", ctx_s, got) };
                            }
                        } else {
                            st.bump("pen_probe_inconclusive");
                        }
                    }
                    // origin mode: DECSTBM homes to the top margin iff origin mode is on
                    if rows >= 3 {
                        let mut fk = replay_plain(&t.config, &prefix);
                        fk.feed_str(&format!("\x1b[2;{}r", rows));
                        let got = fk.cursor().row == 1;
                        if got != exp.origin {
                            return Verdict::Violation { rule: "C17/origin-mode".into(), detail: format!("{}: origin mode after the restore is {}", ctx_s, got) };
                        }
                        st.bump("origin_probe_done");
                    }
                    // auto-wrap: printing in the last column parks the cursor past it iff auto-wrap is on
                    {
                        let mut fk = replay_plain(&t.config, &prefix);
                        fk.feed_str("\x1b[65535C\x1b[65535CX");
                        let got = fk.cursor().col == cols;
                        if got != exp.awm {
                            return Verdict::Violation { rule: "C17/auto-wrap-mode".into(), detail: format!("{}: auto-wrap after the restore is {}", ctx_s, got) };
                        }
                    }
                }
            }
            if restores == 0 {
                return Verdict::Skip;
            }
            dg.u64(screen_digest(&live.vt));
            Verdict::Pass { digest: dg.0, nontrivial: true }
        });
        match res {
            Ok(v) => v,
            Err(_) => {
                st.bump("runs_abandoned_on_panic");
                Verdict::Skip
            }
        }
    }
    fn meta(&self) -> Meta {
        Meta {
            rule: "sessions dense in DECSC/SCOSC/?1048h/?1049h and DECRC/SCORC/?1048l/?1049l with moves, prints, SGR, DECOM/DECAWM, margins, excursions to the other screen with their own saves, DECSTR, RIS and resizes in between, one character per call; at every (single-mode) restore: cursor == the position saved most recently on that screen (column clamped to the last real column at save time), or inside the screen if resized since; pen, origin mode and auto-wrap mode measured by probes on forks (print X; DECSTBM 2;rows homes to row 1 iff origin; CSI 9999C X parks past the last column iff auto-wrap) == the saved context of that screen, or power-on defaults if nothing was saved / DECSTR / RIS intervened; non-trivial = >= 1 restore judged; distinct = digests of restored positions + final screen",
            assumptions: vec!["expected context = the hidden-state tracker's per-screen saved context (pen = fold of the SGR functions reported by the lock-step parser)", "multi-mode DECSET/DECRST sequences are tracked but not judged", "origin probe needs >= 3 rows", "a run in which avt panics is abandoned"],
            real: vec!["avt::Vt (run and forks)", "avt::parser::Parser (lock-step)"],
            simulated: vec!["App (save/restore-dense producer)", "Window (resizes between save and restore)", "probe forks (replay of the event prefix)"],
            model: vec!["hidden-state tracker: pen, origin, auto-wrap, per-screen saved contexts"],
            probes: vec!["saves", "restores", "restore_of_defaults", "restore_on_alternate", "restore_after_resize", "restore_with_both_contexts_saved", "context_reset_by_decstr_or_ris", "origin_probe_done"],
            fault_kinds: vec!["resize_events", "resize_while_alternate", "resize_mid_sequence"],
        }
    }
}
