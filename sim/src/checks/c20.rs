//! C20 - control strings and unimplemented sequences are inert.
use crate::gen::*;
use crate::model::parser::{RefParser, St};
use crate::obs::screen_digest;
use crate::rng::Rng;
use crate::runner::*;
use crate::sim::{catch_avt, gen_events, gen_events_anycut, GenStats, Live, SessionOpts};
use crate::trace::{Event, Trace};
use avt::parser::State;

pub struct C20;

fn item_kind(s: &str) -> &'static str {
    let mut it = s.chars();
    match (it.next(), it.next()) {
        (Some('\x1b'), Some(']')) | (Some('\u{9d}'), _) => "item_osc",
        (Some('\x1b'), Some('P')) | (Some('\u{90}'), _) => "item_dcs",
        (Some('\x1b'), Some('X' | '^' | '_')) | (Some('\u{98}' | '\u{9e}' | '\u{9f}'), _) => "item_sos_pm_apc",
        (Some('\x1b'), Some('[')) | (Some('\u{9b}'), _) => "item_csi",
        (Some('\x1b'), _) => "item_esc",
        _ => "item_c0_c1",
    }
}

impl Check for C20 {
    fn id(&self) -> &'static str {
        "C20"
    }
    fn runs(&self, tier: Tier) -> u64 {
        match tier {
            Tier::Quick => 1_000_000,
            Tier::Thorough => 20_000_000,
        }
    }
    fn generate(&self, r: &mut Rng, _tier: Tier, st: &mut Stats) -> Trace {
        let (mc, mr) = (40, 12);
        let cfg = gen_config(r, mc, mr, true);
        let mut p = Profile::base();
        if r.chance(1, 2) {
            p = p.swarm(r);
        }
        p.fam[F_STRINGS] = 0;
        p.max_tokens = 12;
        p.intra_pct = 0;
        let o = SessionOpts { profile: p, max_cols: mc, max_rows: mr };
        let mut gs = GenStats::default();
        let mut evs = gen_events_anycut(r, &cfg, &o, DrainPolicy::AlwaysAll, &mut gs);
        let n_items = 1 + r.usize_below(3);
        for _ in 0..n_items {
            let s = inert_item(r);
            let n = s.chars().count();
            let mut cuts = vec![];
            match r.below(5) {
                0 => {}
                1 => {
                    for i in 1..n {
                        cuts.push(i);
                    }
                }
                2 => cuts.push(0), // per-character entry point Vt::feed()
                _ => {
                    for i in 1..n {
                        if r.chance(1, 3) {
                            cuts.push(i);
                        }
                    }
                }
            }
            if r.chance(1, 4) {
                // a resize (half of them to the current size) right before the item
                let (c0, r0) = evs.iter().rev().find_map(|e| if let Event::Resize { cols, rows, .. } = e { Some((*cols, *rows)) } else { None }).unwrap_or((cfg.cols, cfg.rows));
                let (c1, r1) = if r.chance(1, 2) || c0 * r0 > 20_000 { (c0, r0) } else { gen_resize(r, c0, r0, mc, mr) };
                evs.push(Event::Resize { cols: c1, rows: r1, drain: crate::trace::Drain::All });
                st.bump("resize_right_before_item");
            }
            evs.push(Event::Inert { s, cuts });
            if r.chance(1, 3) {
                let (_f, tok) = gen_token(r, cfg.cols, cfg.rows, &o.profile);
                evs.push(Event::FeedStr { s: tok, drain: crate::trace::Drain::All });
            }
        }
        super::record_gen(st, &gs);
        super::count_events(st, &evs);
        let mut t = Trace::new("C20", cfg);
        t.events = evs;
        t
    }
    fn execute(&self, t: &Trace, st: &mut Stats, _ctx: &Ctx) -> Verdict {
        let res = catch_avt(|| {
            let mut live = Live::new(&t.config);
            let mut items = 0u64;
            let mut d = crate::rng::Digest::new();
            // changed-line flags left pending by feed(char) calls (which report nothing themselves)
            let mut pending_from_feed_loop = false;
            for (i, e) in t.events.iter().enumerate() {
                let Event::Inert { s, cuts } = e else {
                    live.apply(e);
                    match e {
                        Event::Feed { .. } => pending_from_feed_loop = true,
                        Event::FeedStr { .. } | Event::Resize { .. } => pending_from_feed_loop = false,
                        _ => {}
                    }
                    continue;
                };
                if live.parser.state != State::Ground {
                    st.bump("item_skipped_parser_not_ground");
                    live.apply(e);
                    continue;
                }
                // validate the claim "this item is inert" against the reference parser (replays may
                // have been edited by hand); a disagreement is a harness matter, not a verdict
                let mut rp = RefParser::new();
                let mut ref_dispatch = false;
                for ch in s.chars() {
                    if rp.feed(ch).is_some() {
                        ref_dispatch = true;
                    }
                }
                if ref_dispatch || rp.st != St::Ground {
                    st.bump("item_rejected_by_reference_parser");
                    live.apply(e);
                    continue;
                }
                // report-and-clear whatever earlier feed(char) calls left pending (only then: every
                // feed_str / resize call has reported and cleared its own changes)
                if pending_from_feed_loop {
                    let _ = live.vt.feed_str("");
                    pending_from_feed_loop = false;
                }
                let before_view = live.vt.view().to_vec();
                let before_lines = live.vt.lines().to_vec();
                let before_cursor = live.vt.cursor();
                let before_dump = live.vt.dump();
                let before_app = live.vt.cursor_key_app_mode();
                let rep = live.apply(e);
                items += 1;
                st.bump(item_kind(s));
                if cuts.contains(&0) {
                    st.bump("item_through_feed_char");
                } else if !cuts.is_empty() {
                    st.bump("item_cut_inside");
                }
                d.str(s);
                let fail = |rule: &str, dd: String| Verdict::Violation { rule: format!("C20/{}", rule), detail: format!("event #{} item {:?} cuts {:?}: {}", i, s, cuts, dd) };
                if !rep.funcs.is_empty() {
                    return fail("dispatched", format!("the parser dispatched {:?}", rep.funcs));
                }
                if live.parser.state != State::Ground {
                    return fail("not-ground", format!("parser state afterwards is {:?}", live.parser.state));
                }
                if live.vt.view() != &before_view[..] {
                    return fail("view-changed", "visible cells / wrap marks changed".into());
                }
                if live.vt.lines() != &before_lines[..] {
                    return fail("lines-changed", "lines() changed".into());
                }
                if live.vt.cursor() != before_cursor || live.vt.cursor_key_app_mode() != before_app {
                    return fail("cursor-changed", format!("cursor {:?} -> {:?}", before_cursor, live.vt.cursor()));
                }
                let after_dump = live.vt.dump();
                if after_dump != before_dump {
                    return fail("modes-changed", format!("dump() changed: {:?} -> {:?}", before_dump, after_dump));
                }
                if let Some(l) = &rep.lines {
                    if !l.is_empty() {
                        return fail("changed-lines-reported", format!("Changes.lines = {:?}", l));
                    }
                }
            }
            d.u64(screen_digest(&live.vt));
            Verdict::Pass { digest: d.0, nontrivial: items > 0 }
        });
        match res {
            Ok(v) => v,
            Err(_) => {
                st.bump("runs_abandoned_on_panic");
                Verdict::Skip
            }
        }
    }
    fn meta(&self) -> Meta {
        Meta {
            rule: "an in-domain prior history, then 1-3 inert items (OSC/DCS/SOS/PM/APC x 7-/8-bit introducer x ST/ESC \\/BEL x payload classes; CSI with unimplemented finals, private markers < = > ?, intermediates, ignore paths; unimplemented ESC sequences; unassigned C0/C1), each delivered by feed_str pieces cut at arbitrary positions inside the item or character by character through Vt::feed(); twin = the same instance before: view, lines(), cursor, cursor-key mode, dump() identical, every Changes.lines of the item's calls empty, no Function dispatched, parser back in Ground; non-trivial = at least one item judged; distinct = (items, final screen)",
            assumptions: vec!["an item is judged only if the parser is in Ground before it and the reference parser agrees it is inert (else counted, not judged)", "pending changed-line flags from earlier feed(char) calls are reported-and-cleared by an empty feed_str before the item", "a run in which avt panics is abandoned (C01's subject)"],
            real: vec!["avt::Vt", "avt::parser::Parser (lock-step)"],
            simulated: vec!["App (inert items)", "Pipe (cuts inside the item)"],
            model: vec!["RefParser (validates the item)"],
            probes: vec!["resize_right_before_item", "item_osc", "item_dcs", "item_sos_pm_apc", "item_csi", "item_esc", "item_c0_c1", "item_cut_inside", "item_through_feed_char"],
            fault_kinds: vec!["item_cut_inside", "item_through_feed_char", "feed_char_calls", "resize_events"],
        }
    }
}
