//! C09 - logical text is reproduced exactly, whatever the width.
use crate::obs::build;
use crate::rng::Rng;
use crate::runner::*;
use crate::sim::catch_avt;
use crate::trace::{Config, Drain, Event, Trace};
use serde_json::json;

pub struct C09;

const CHARS: [char; 24] = ['a', 'b', 'c', 'x', 'y', 'z', 'A', 'Z', '0', '9', '#', '~', '`', 'q', 'é', 'ß', '日', '本', '-', '.', '\u{1f600}', '\u{10348}', '\u{ffff}', '\u{10ffff}'];

fn strip_trailing_empty(mut v: Vec<String>) -> Vec<String> {
    while v.last().map(|s| s.is_empty()).unwrap_or(false) {
        v.pop();
    }
    v
}

fn read_text(vt: &avt::Vt) -> (Vec<String>, Vec<String>) {
    let text = vt.text();
    let mut uw = avt::util::TextUnwrapper::new();
    let mut unwrapped: Vec<String> = vt.lines().iter().filter_map(|l| uw.push(l)).collect();
    unwrapped.extend(uw.flush());
    (text, unwrapped)
}

fn run_text(cols: usize, rows: usize, pieces: &[&str]) -> (Vec<String>, Vec<String>) {
    let mut vt = build(cols, rows, None);
    for p in pieces {
        vt.feed_str(p);
    }
    read_text(&vt)
}

/// the text fed at one geometry, then the window resized to the other: "whatever the width"
fn run_text_then_resize(cols: usize, rows: usize, pieces: &[&str], cols2: usize, rows2: usize) -> (Vec<String>, Vec<String>) {
    let mut vt = build(cols, rows, None);
    for p in pieces {
        vt.feed_str(p);
    }
    vt.resize(cols2, rows2);
    read_text(&vt)
}

impl Check for C09 {
    fn id(&self) -> &'static str {
        "C09"
    }
    fn runs(&self, tier: Tier) -> u64 {
        match tier {
            Tier::Quick => 600_000,
            Tier::Thorough => 15_000_000,
        }
    }
    fn generate(&self, r: &mut Rng, tier: Tier, st: &mut Stats) -> Trace {
        let m1 = if r.chance(1, 2) { 6 } else { 40 };
        let cols = 1 + r.usize_below(m1);
        let rows = 1 + r.usize_below(12);
        let m2 = if r.chance(1, 2) { 6 } else { 40 };
        let cols2 = 1 + r.usize_below(m2);
        let rows2 = 1 + r.usize_below(12);
        let ml = if tier == Tier::Thorough && r.chance(1, 10) { 60 } else { 14 };
        let mut nlines = r.usize_below(ml);
        // "however much has scrolled into an unlimited scrollback": a share of deep sessions
        let deep = r.chance(1, 60);
        if deep {
            nlines = *r.pick(&[300usize, 1101, 1200, 2500, 5000]) + r.usize_below(50);
            st.bump("deep_scroll_runs");
        }
        let mut text = String::new();
        for _ in 0..nlines {
            let w = if r.chance(1, 2) { cols } else { cols2 };
            let len = match if deep { 3 + r.below(5) } else { r.below(8) } {
                0 => 0,
                1 | 2 => {
                    // the boundary lengths k*w-1, k*w, k*w+1
                    let k = 1 + r.usize_below(3);
                    (k * w + r.usize_below(3)).saturating_sub(1)
                }
                _ => r.usize_below(if deep { w.min(6) + 2 } else { 3 * w + 2 }),
            };
            let kind = r.below(10);
            for i in 0..len {
                let ch = match kind {
                    0 => ' ', // a line of spaces
                    1 => {
                        if i % 3 == 0 {
                            ' '
                        } else {
                            *r.pick(&CHARS)
                        }
                    }
                    2 => {
                        // interior run of spaces straddling row boundaries, trailing spaces
                        if i > len / 3 {
                            ' '
                        } else {
                            *r.pick(&CHARS)
                        }
                    }
                    _ => {
                        if r.chance(1, 8) {
                            ' '
                        } else {
                            *r.pick(&CHARS)
                        }
                    }
                };
                text.push(ch);
            }
            text.push_str("\r\n");
        }
        if r.chance(1, 2) && text.ends_with("\r\n") {
            text.truncate(text.len() - 2);
        }
        // Pipe: any chunking
        let chars: Vec<char> = text.chars().collect();
        let mut evs = vec![];
        let mode = r.below(4);
        let mut i = 0;
        while i < chars.len() {
            let end = match mode {
                0 => chars.len(),
                1 => i + 1,
                _ => (i + 1 + r.usize_below(9)).min(chars.len()),
            };
            evs.push(Event::FeedStr { s: chars[i..end].iter().collect(), drain: Drain::All });
            i = end;
        }
        st.add("feed_str_calls", evs.len() as u64);
        let mut t = Trace::new("C09", Config { cols, rows, limit: None });
        t.params.insert("cols2".into(), json!(cols2));
        t.params.insert("rows2".into(), json!(rows2));
        // a resize in the middle of the text, at a line boundary (after the k-th CR LF)
        t.params.insert("resize_after_line".into(), json!(r.usize_below(nlines.max(1))));
        // a height-only (or same-size) resize at an arbitrary character position, biased to the
        // positions where a row has just been filled (wrap pending in the middle of a logical line)
        let mut full_rows: Vec<usize> = vec![];
        let mut in_line = 0usize;
        for (i, ch) in chars.iter().enumerate() {
            if *ch == '\r' || *ch == '\n' {
                in_line = 0;
            } else {
                in_line += 1;
                if in_line % cols == 0 {
                    full_rows.push(i + 1);
                }
            }
        }
        let at = if !full_rows.is_empty() && r.chance(2, 3) { *r.pick(&full_rows) } else { r.usize_below(chars.len() + 1) };
        t.params.insert("height_resize_at".into(), json!(at));
        t.params.insert("rows3".into(), json!(if r.chance(1, 4) { rows } else { 1 + r.usize_below(14) }));
        t.events = evs;
        t
    }
    fn execute(&self, t: &Trace, st: &mut Stats, _ctx: &Ctx) -> Verdict {
        let mut pieces: Vec<&str> = vec![];
        for e in &t.events {
            match e {
                Event::FeedStr { s, .. } => pieces.push(s.as_str()),
                _ => return Verdict::Skip,
            }
        }
        let whole: String = pieces.concat();
        // the statement is about printable characters and CR LF line breaks only
        let cs: Vec<char> = whole.chars().collect();
        for (i, c) in cs.iter().enumerate() {
            let ok = match *c {
                '\r' => cs.get(i + 1) == Some(&'\n'),
                '\n' => i > 0 && cs[i - 1] == '\r',
                c => (c >= ' ' && c < '\u{7f}') || (c > '\u{a0}' && !c.is_whitespace()),
            };
            if !ok {
                return Verdict::Skip;
            }
        }
        if t.config.limit.is_some() {
            return Verdict::Skip;
        }
        let expected: Vec<String> = strip_trailing_empty(whole.split("\r\n").map(|l| l.trim_end_matches(' ').to_string()).collect());
        let cols2 = t.param_u64("cols2").unwrap_or(t.config.cols as u64).max(1) as usize;
        let rows2 = t.param_u64("rows2").unwrap_or(t.config.rows as u64).max(1) as usize;
        let res = catch_avt(|| (run_text(t.config.cols, t.config.rows, &pieces), run_text(cols2, rows2, &[whole.as_str()]), run_text_then_resize(t.config.cols, t.config.rows, &pieces, cols2, rows2)));
        let ((text1, unw1), (text2, unw2), (text3, unw3)) = match res {
            Ok(x) => x,
            Err(_) => {
                st.bump("runs_abandoned_on_panic");
                return Verdict::Skip;
            }
        };
        let geo = |c: usize, r: usize| format!("{}x{}", c, r);
        let first_diff = |a: &[String], b: &[String]| -> String {
            let i = a.iter().zip(b.iter()).position(|(x, y)| x != y).unwrap_or(a.len().min(b.len()));
            format!("first difference at line {} ({} vs {} lines): {:?} vs {:?}", i, a.len(), b.len(), a.get(i), b.get(i))
        };
        let t1 = strip_trailing_empty(text1);
        if t1 != expected {
            return Verdict::Violation { rule: "C09/text".into(), detail: format!("{}: text() != input lines; {}", geo(t.config.cols, t.config.rows), first_diff(&t1, &expected)) };
        }
        let t2 = strip_trailing_empty(text2);
        if t2 != expected {
            return Verdict::Violation { rule: "C09/text".into(), detail: format!("{}: text() != input lines; {}", geo(cols2, rows2), first_diff(&t2, &expected)) };
        }
        if t1 != t2 {
            return Verdict::Violation { rule: "C09/width-dependence".into(), detail: format!("text() differs between {} and {}", geo(t.config.cols, t.config.rows), geo(cols2, rows2)) };
        }
        // fourth execution: the window is resized in the middle of the session, between two lines
        // (cursor in column 0 of a fresh line, nothing pending)
        if let Some(k) = t.param_u64("resize_after_line") {
            let mut off = None;
            let mut seen = 0u64;
            let bytes: Vec<(usize, char)> = whole.char_indices().collect();
            for w in 0..bytes.len().saturating_sub(1) {
                if bytes[w].1 == '\r' && bytes[w + 1].1 == '\n' {
                    if seen == k {
                        off = Some(bytes[w + 1].0 + 1);
                        break;
                    }
                    seen += 1;
                }
            }
            if let Some(off) = off {
                let (head, tail) = whole.split_at(off);
                let r4 = catch_avt(|| {
                    let mut vt = build(t.config.cols, t.config.rows, None);
                    vt.feed_str(head);
                    vt.resize(cols2, rows2);
                    vt.feed_str(tail);
                    read_text(&vt)
                });
                if let Ok((text4, unw4)) = r4 {
                    st.bump("mid_text_resize_compared");
                    let t4 = strip_trailing_empty(text4);
                    if t4 != expected {
                        return Verdict::Violation { rule: "C09/text-with-resize-between-lines".into(), detail: format!("{} resized to {} after line {}: text() != input lines; {}", geo(t.config.cols, t.config.rows), geo(cols2, rows2), k, first_diff(&t4, &expected)) };
                    }
                    let u4: Vec<String> = strip_trailing_empty(unw4.iter().map(|l| l.trim_end_matches(' ').to_string()).collect());
                    if u4 != expected {
                        return Verdict::Violation { rule: "C09/unwrapper-with-resize-between-lines".into(), detail: format!("{} resized to {} after line {}: {}", geo(t.config.cols, t.config.rows), geo(cols2, rows2), k, first_diff(&u4, &expected)) };
                    }
                }
            }
        }
        // fifth execution: a resize that leaves the width alone (height only, or to the same size) at
        // an arbitrary character position, also while a wrap is pending in the middle of a line
        if let (Some(at), Some(rows3)) = (t.param_u64("height_resize_at"), t.param_u64("rows3")) {
            let at = (at as usize).min(cs.len());
            let head: String = cs[..at].iter().collect();
            let tail: String = cs[at..].iter().collect();
            let rows3 = (rows3 as usize).max(1);
            let r5 = catch_avt(|| {
                let mut vt = build(t.config.cols, t.config.rows, None);
                vt.feed_str(&head);
                let pending = vt.cursor().col >= t.config.cols;
                vt.resize(t.config.cols, rows3);
                vt.feed_str(&tail);
                (read_text(&vt), pending)
            });
            if let Ok(((text5, unw5), pending)) = r5 {
                st.bump("height_only_resize_compared");
                if pending && !tail.is_empty() && !tail.starts_with('\r') {
                    st.bump("height_only_resize_while_wrap_pending_mid_line");
                }
                let t5 = strip_trailing_empty(text5);
                if t5 != expected {
                    return Verdict::Violation { rule: "C09/text-with-height-only-resize".into(), detail: format!("{} resized to {} rows after {} characters: text() != input lines; {}", geo(t.config.cols, t.config.rows), rows3, at, first_diff(&t5, &expected)) };
                }
                let u5: Vec<String> = strip_trailing_empty(unw5.iter().map(|l| l.trim_end_matches(' ').to_string()).collect());
                if u5 != expected {
                    return Verdict::Violation { rule: "C09/unwrapper-with-height-only-resize".into(), detail: format!("{} resized to {} rows after {} characters: {}", geo(t.config.cols, t.config.rows), rows3, at, first_diff(&u5, &expected)) };
                }
            }
        }
        let t3 = strip_trailing_empty(text3);
        if t3 != expected {
            return Verdict::Violation { rule: "C09/text-after-resize".into(), detail: format!("fed at {} then resized to {}: text() != input lines; {}", geo(t.config.cols, t.config.rows), geo(cols2, rows2), first_diff(&t3, &expected)) };
        }
        st.bump("resize_twin_compared");
        for (unw, c, rw) in [(unw1, t.config.cols, t.config.rows), (unw2, cols2, rows2), (unw3, cols2, rows2)] {
            let u: Vec<String> = strip_trailing_empty(unw.iter().map(|l| l.trim_end_matches(' ').to_string()).collect());
            if u != expected {
                return Verdict::Violation { rule: "C09/unwrapper".into(), detail: format!("{}: TextUnwrapper over lines() != input lines (up to trailing spaces); {}", geo(c, rw), first_diff(&u, &expected)) };
            }
        }
        let maxlen = expected.iter().map(|l| l.chars().count()).max().unwrap_or(0);
        if maxlen > t.config.cols {
            st.bump("line_wraps");
        }
        if expected.iter().any(|l| !l.is_empty() && l.chars().count() % t.config.cols == 0) {
            st.bump("line_len_multiple_of_width");
        }
        if expected.len() > t.config.rows {
            st.bump("scrolled_into_scrollback");
        }
        if expected.len() > 1100 + t.config.rows {
            st.bump("scrollback_over_1100_rows");
        }
        if t.config.cols == 1 || cols2 == 1 {
            st.bump("one_column");
        }
        let mut d = crate::rng::Digest::new();
        d.str(&whole);
        d.u64(t.config.cols as u64);
        d.u64(cols2 as u64);
        Verdict::Pass { digest: d.0, nontrivial: !expected.is_empty() && (t.config.cols, t.config.rows) != (cols2, rows2) }
    }
    fn meta(&self) -> Meta {
        Meta {
            rule: "texts of printable characters and CR LF (line lengths 0..3 widths with k*w-1, k*w, k*w+1 forced, lines of spaces, interior/trailing runs of spaces, non-ASCII), widths 1..40, heights 1..12, unlimited scrollback, any chunking; twins: the same text on a second geometry fed in one call, the first terminal resized to the second geometry afterwards (the cursor is at the end of the text, so a resize may not cut anything), resized to it between two lines, and resized in height only (or to the same size) at an arbitrary character position, biased to the instants a row has just been filled (wrap pending mid-line); terminals made by Vt::new or the builder (obs::build); oracle: text() == input lines right-trimmed (trailing empty lines aside) on both, TextUnwrapper over lines() equal up to trailing spaces, text() identical across the two geometries; non-trivial = non-empty text and two different geometries; distinct = (text, widths)",
            assumptions: vec!["Unicode white space other than U+0020 is not generated (text() trims with trim_end, the statement says spaces)", "DEL is not generated"],
            real: vec!["avt::Vt (two geometries)", "avt::util::TextUnwrapper"],
            simulated: vec!["App (text producer)", "Pipe (chunking)", "configuration twin (S6)"],
            model: vec!["input lines split at CR LF and right-trimmed"],
            probes: vec!["line_wraps", "line_len_multiple_of_width", "scrolled_into_scrollback", "one_column", "deep_scroll_runs", "scrollback_over_1100_rows", "height_only_resize_compared", "height_only_resize_while_wrap_pending_mid_line"],
            fault_kinds: vec!["feed_str_calls"],
        }
    }
}
