#![allow(dead_code, unused_imports, unused_variables)]
mod checks;
mod gen;
mod model;
mod obs;
mod rng;
mod runner;
mod sim;
mod trace;

use runner::Tier;

fn usage() -> ! {
    eprintln!("usage: avt-sim check <ID> [--tier quick|thorough] [--runs N] | replay <file> | list");
    std::process::exit(2);
}

fn main() {
    runner::silence_panics();
    let args: Vec<String> = std::env::args().collect();
    if args.len() < 2 {
        usage();
    }
    let seed: u64 = std::env::var("VERIF_SEED").ok().and_then(|s| s.trim().parse().ok()).unwrap_or(1);
    match args[1].as_str() {
        "list" => {
            for c in checks::all() {
                println!("{}", c.id());
            }
        }
        "check" => {
            if args.len() < 3 {
                usage();
            }
            let id = &args[2];
            let mut tier = match std::env::var("VERIF_TIER").ok().as_deref() {
                Some("thorough") => Tier::Thorough,
                _ => Tier::Quick,
            };
            let mut runs = None;
            let mut i = 3;
            while i < args.len() {
                match args[i].as_str() {
                    "--tier" => {
                        i += 1;
                        tier = match args.get(i).map(|s| s.as_str()) {
                            Some("thorough") => Tier::Thorough,
                            Some("quick") => Tier::Quick,
                            _ => usage(),
                        };
                    }
                    "--runs" => {
                        i += 1;
                        runs = args.get(i).and_then(|s| s.parse().ok());
                    }
                    _ => usage(),
                }
                i += 1;
            }
            let Some(c) = checks::by_id(id) else {
                eprintln!("HARNESS-ERROR: unknown check {}", id);
                std::process::exit(2);
            };
            std::process::exit(runner::run_check(c.as_ref(), tier, seed, runs));
        }
        "one" => {
            // debugging aid: generate and execute one run index, with timings
            // usage: one <ID> <quick|thorough> <run>
            let c = checks::by_id(&args[2]).expect("unknown check");
            let tier = if args.get(3).map(|s| s.as_str()) == Some("thorough") { Tier::Thorough } else { Tier::Quick };
            // <run> or <from>..<to> (prints only the runs that take more than 100 ms)
            let (from, to) = match args[4].split_once("..") {
                Some((a, b)) => (a.parse::<u64>().unwrap(), b.parse::<u64>().unwrap()),
                None => {
                    let x: u64 = args[4].parse().expect("run index");
                    (x, x + 1)
                }
            };
            let root = runner::verif_root();
            let (ctx, _) = runner::make_ctx(&root, c.id(), tier).unwrap();
            for run in from..to {
                if std::env::var("VERIF_ONE_TRACE").is_ok() {
                    eprintln!("run {}", run);
                }
                let mut r = rng::Rng::new(rng::run_seed(seed, c.id(), run));
                let mut st = runner::Stats::default();
                let t0 = std::time::Instant::now();
                let t = c.generate(&mut r, tier, &mut st);
                let tg = t0.elapsed();
                let chars: usize = t.events.iter().map(|e| match e { trace::Event::FeedStr { s, .. } | trace::Event::Feed { s } | trace::Event::Inert { s, .. } => s.len(), _ => 0 }).sum();
                let t1 = std::time::Instant::now();
                let v = c.execute(&t, &mut st, &ctx);
                let te = t1.elapsed();
                if to - from == 1 {
                    if let Ok(path) = std::env::var("VERIF_ONE_DUMP") {
                        std::fs::write(&path, serde_json::to_string_pretty(&t.to_json()).unwrap()).unwrap();
                    }
                    // per-event cost on a plain terminal
                    let mut vt = obs::build(t.config.cols, t.config.rows, t.config.limit);
                    for e in &t.events {
                        let t2 = std::time::Instant::now();
                        sim::Live::apply_plain(&mut vt, e);
                        println!("  {:>8.1}ms lines={} {}", t2.elapsed().as_secs_f64() * 1000.0, vt.lines().len(), trace::event_brief(e).chars().take(100).collect::<String>());
                    }
                }
                if to - from == 1 || tg.as_millis() + te.as_millis() > 100 {
                    println!("run {}: generated in {:?}: config {:?}, {} events, {} bytes; executed in {:?}: {:?}", run, tg, t.config, t.events.len(), chars, te, v);
                }
            }
        }
        "selftest" => {
            // per-run determinism log: one line per (check, run): hash of the generated trace and
            // the verdict; two invocations must print identical logs
            let mut runs = 500u64;
            let mut only: Option<String> = None;
            let mut i = 2;
            while i < args.len() {
                match args[i].as_str() {
                    "--runs" => {
                        i += 1;
                        runs = args.get(i).and_then(|s| s.parse().ok()).unwrap_or(runs);
                    }
                    x => only = Some(x.to_string()),
                }
                i += 1;
            }
            let root = runner::verif_root();
            for c in checks::all() {
                if let Some(o) = &only {
                    if o != c.id() {
                        continue;
                    }
                }
                let (ctx, _) = runner::make_ctx(&root, c.id(), Tier::Quick).unwrap();
                for run in 0..runs {
                    let mut r = rng::Rng::new(rng::run_seed(seed, c.id(), run));
                    let mut st = runner::Stats::default();
                    let t = c.generate(&mut r, Tier::Quick, &mut st);
                    let th = rng::fnv1a(t.to_json().to_string().as_bytes());
                    let v = c.execute(&t, &mut st, &ctx);
                    let counters = rng::fnv1a(format!("{:?}", st.0).as_bytes());
                    println!("{} {} {:016x} {:?} {:016x}", c.id(), run, th, v, counters);
                }
            }
        }
        "replay" => {
            if args.len() < 3 {
                usage();
            }
            let path = std::path::PathBuf::from(&args[2]);
            let txt = std::fs::read_to_string(&path).unwrap_or_default();
            let prop = serde_json::from_str::<serde_json::Value>(&txt).ok().and_then(|v| v.get("property").and_then(|p| p.as_str()).map(|s| s.to_string()));
            let Some(prop) = prop else {
                eprintln!("HARNESS-ERROR: cannot read property from {}", path.display());
                std::process::exit(2);
            };
            let Some(c) = checks::by_id(&prop) else {
                eprintln!("HARNESS-ERROR: unknown check {}", prop);
                std::process::exit(2);
            };
            std::process::exit(runner::replay_file(c.as_ref(), &runner::verif_root(), &path));
        }
        _ => usage(),
    }
}
