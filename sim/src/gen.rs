//! The simulated environment's producers: App (tokens), Window (resizes), Pipe (cuts, damage),
//! Consumer (drain policy). Everything is drawn from the run's single PRNG and ends up as concrete
//! events in the trace.

use crate::rng::Rng;
use crate::trace::{Config, Drain, Event};

pub const F_TEXT: usize = 0;
pub const F_C0: usize = 1;
pub const F_CURREL: usize = 2;
pub const F_CURABS: usize = 3;
pub const F_SCROLL: usize = 4;
pub const F_EDIT: usize = 5;
pub const F_SGR: usize = 6;
pub const F_MODES: usize = 7;
pub const F_MARGINS: usize = 8;
pub const F_TABS: usize = 9;
pub const F_CHARSETS: usize = 10;
pub const F_SAVE: usize = 11;
pub const F_ALT: usize = 12;
pub const F_STRINGS: usize = 13;
pub const F_RESET: usize = 14;
pub const F_GARBAGE: usize = 15;
pub const F_PARTIAL: usize = 16;
pub const F_COMBO: usize = 17;
pub const F_RECORDED: usize = 18;
pub const NFAM: usize = 19;

pub const FAM_NAMES: [&str; NFAM] = [
    "text", "c0", "cursor_rel", "cursor_abs", "scroll", "edit", "sgr", "modes", "margins", "tabs", "charsets", "save_restore", "alt_screen", "strings_unknown",
    "reset", "garbage", "partial", "combo", "recorded",
];

#[derive(Clone, Debug)]
pub struct Profile {
    pub fam: [u32; NFAM],
    /// percent of CSI / string introducers rendered in 8-bit (C1) form
    pub eight_bit: u32,
    /// allow hard reset (ESC c) inside F_RESET
    pub allow_ris: bool,
    /// allow DECSTR inside F_RESET
    pub allow_decstr: bool,
    /// per-mille chance of a resize before a token
    pub resize_pm: u32,
    /// per-mille chance of a snapshot before a token
    pub snapshot_pm: u32,
    /// per-mille chance of an observe event before a token
    pub observe_pm: u32,
    /// percent of environment events that are placed inside a token rather than between tokens
    pub intra_pct: u32,
    /// boost factor (x) for environment events while state is "in flight"
    pub boost: u32,
    pub min_tokens: usize,
    pub max_tokens: usize,
    /// max length of a text run, in multiples of the width
    pub text_widths: usize,
    /// stream damage (S5) per-mille per token: substitute / drop / duplicate / truncate
    pub damage_pm: u32,
    /// allow the full Unicode range in text (else the curated set)
    pub wild_text: bool,
    /// huge counts (65535) allowed
    pub huge: bool,
    /// line-feed bursts (thousands of rows scrolling off in one token) allowed
    pub bursts: bool,
    /// maximum length (characters) of a slice of a real recording (`/repo/benches/data/*.txt`)
    pub recorded_max: usize,
    /// resizes to and from very wide / very tall geometries (513..70000 in one dimension) allowed;
    /// only for checks whose per-event cost does not grow with cells x characters
    pub giant_resizes: bool,
}

impl Profile {
    /// The default in-domain profile: every ordinary family on, no damage.
    pub fn base() -> Self {
        let mut fam = [0u32; NFAM];
        fam[F_TEXT] = 30;
        fam[F_C0] = 10;
        fam[F_CURREL] = 10;
        fam[F_CURABS] = 6;
        fam[F_SCROLL] = 8;
        fam[F_EDIT] = 8;
        fam[F_SGR] = 6;
        fam[F_MODES] = 6;
        fam[F_MARGINS] = 4;
        fam[F_TABS] = 3;
        fam[F_CHARSETS] = 3;
        fam[F_SAVE] = 4;
        fam[F_ALT] = 4;
        fam[F_STRINGS] = 2;
        fam[F_RESET] = 1;
        fam[F_RECORDED] = 1;
        fam[F_COMBO] = 2;
        Profile {
            fam,
            eight_bit: 30,
            allow_ris: true,
            allow_decstr: true,
            resize_pm: 60,
            snapshot_pm: 0,
            observe_pm: 0,
            intra_pct: 30,
            boost: 3,
            min_tokens: 1,
            max_tokens: 25,
            text_widths: 2,
            damage_pm: 0,
            wild_text: false,
            huge: true,
            bursts: false,
            recorded_max: 200,
            giant_resizes: false,
        }
    }

    /// chaos: everything on including garbage, partial tokens and stream damage
    pub fn chaos() -> Self {
        let mut p = Self::base();
        p.fam[F_GARBAGE] = 6;
        p.fam[F_PARTIAL] = 4;
        p.fam[F_COMBO] = 5;
        p.fam[F_RECORDED] = 3;
        p.bursts = true;
        p.fam[F_STRINGS] = 4;
        p.damage_pm = 40;
        p.wild_text = true;
        p.observe_pm = 60;
        p.snapshot_pm = 30;
        p.resize_pm = 90;
        p
    }

    /// swarm: switch each family off with probability 0.3 (never all of them), vary rates
    pub fn swarm(mut self, r: &mut Rng) -> Self {
        let mut any = false;
        for i in 0..NFAM {
            if self.fam[i] > 0 {
                if r.chance(3, 10) {
                    self.fam[i] = 0;
                } else {
                    self.fam[i] = 1 + r.below(2 * self.fam[i] as u64) as u32;
                    any = true;
                }
            }
        }
        if !any {
            self.fam[F_TEXT] = 10;
        }
        self.eight_bit = *r.pick(&[0, 10, 30, 50, 100]);
        self.intra_pct = *r.pick(&[0, 20, 50, 80]);
        self.resize_pm = (self.resize_pm as u64 * r.pick(&[0u64, 1, 1, 2, 4])) as u32 / 1;
        self
    }
}

// ---------------------------------------------------------------------------------------------
// real recordings shipped with the repository (benches/data): slices of them are one token family

static RECORDINGS: std::sync::OnceLock<Vec<Vec<char>>> = std::sync::OnceLock::new();

pub fn recordings() -> &'static Vec<Vec<char>> {
    RECORDINGS.get_or_init(|| {
        let mut v = vec![];
        let dir = std::env::var("AVT_REPO").unwrap_or_else(|_| "/repo".to_string()) + "/benches/data";
        let mut names: Vec<std::path::PathBuf> = std::fs::read_dir(&dir).map(|d| d.filter_map(|e| e.ok()).map(|e| e.path()).collect()).unwrap_or_default();
        names.sort();
        for p in names {
            if let Ok(b) = std::fs::read(&p) {
                let s = String::from_utf8_lossy(&b);
                let cs: Vec<char> = s.chars().collect();
                if !cs.is_empty() {
                    v.push(cs);
                }
            }
        }
        v
    })
}

/// A slice of a real recording, starting anywhere (also inside a sequence).
pub fn recorded_slice(r: &mut Rng, max: usize) -> String {
    let recs = recordings();
    if recs.is_empty() {
        return "recorded data missing".to_string();
    }
    let f = &recs[r.usize_below(recs.len())];
    let len = 1 + r.usize_below(max.max(1));
    let start = r.usize_below(f.len().saturating_sub(len).max(1));
    f[start..(start + len).min(f.len())].iter().collect()
}

// ---------------------------------------------------------------------------------------------
// configuration (S6)

const COLS_SET: [usize; 20] = [1, 2, 3, 4, 5, 7, 8, 9, 10, 15, 16, 17, 20, 24, 31, 32, 33, 40, 80, 132];
const ROWS_SET: [usize; 10] = [1, 2, 3, 4, 5, 6, 8, 10, 24, 50];

/// Rare extreme geometries (beyond the caller's usual caps): very wide and very tall screens, the
/// byte / power-of-two boundaries included.
pub fn extreme_size(r: &mut Rng) -> (usize, usize) {
    if r.chance(1, 2) {
        (*r.pick(&[200usize, 255, 256, 257, 300, 512]), 1 + r.usize_below(3))
    } else {
        (1 + r.usize_below(3), *r.pick(&[100usize, 255, 256, 257, 300]))
    }
}

/// Gigantic geometries (only as the initial configuration, never as a resize target): beyond 9999
/// and beyond the 16-bit range in one dimension, 1-2 cells in the other.
pub fn gigantic_size(r: &mut Rng) -> (usize, usize) {
    if r.chance(1, 2) {
        (*r.pick(&[10_000usize, 12_000, 65_535, 65_536, 70_000]), 1 + r.usize_below(2))
    } else {
        (1 + r.usize_below(2), *r.pick(&[10_000usize, 12_000, 65_536, 70_000]))
    }
}

/// With probability 1/2500 replace a drawn size by a gigantic one (used by the checks whose
/// per-event cost does not grow with the number of cells times the number of characters).
pub fn maybe_gigantic(r: &mut Rng, size: (usize, usize)) -> (usize, usize) {
    if r.chance(1, 2500) {
        gigantic_size(r)
    } else {
        size
    }
}

pub fn gen_size(r: &mut Rng, max_cols: usize, max_rows: usize) -> (usize, usize) {
    if r.chance(1, 150) {
        return extreme_size(r);
    }
    let (c, rw) = match r.below(10) {
        0..=4 => (1 + r.usize_below(4), 1 + r.usize_below(4)), // tiny
        5..=7 => (1 + r.usize_below(12), 1 + r.usize_below(8)),
        _ => (*r.pick(&COLS_SET), *r.pick(&ROWS_SET)),
    };
    (c.min(max_cols).max(1), rw.min(max_rows).max(1))
}

pub fn gen_resize(r: &mut Rng, cols: usize, rows: usize, max_cols: usize, max_rows: usize) -> (usize, usize) {
    if r.chance(1, 200) {
        return extreme_size(r);
    }
    let pm = |r: &mut Rng, v: usize| -> usize {
        match r.below(3) {
            0 => v.saturating_sub(1).max(1),
            1 => v + 1,
            _ => v,
        }
    };
    let (c, rw) = match r.below(12) {
        0..=2 => (pm(r, cols), pm(r, rows)),
        3 => (cols, 1 + r.usize_below(8)),  // height only
        4 => (1 + r.usize_below(12), rows), // width only
        5 => {
            // multiples of 8 and their neighbours
            let k = 8 * (1 + r.usize_below(5));
            ((k + r.usize_below(3)).saturating_sub(1).max(1), rows)
        }
        6 => (1, rows),
        7 => (cols, 1),
        _ => gen_size(r, max_cols, max_rows),
    };
    (c.min(max_cols).max(1), rw.min(max_rows).max(1))
}

/// A very wide or very tall resize target: widths / heights between the ordinary ones (<= 512) and
/// the gigantic ones, at and beyond the 16-bit boundary; 1-3 cells in the other dimension.
pub fn giant_resize_target(r: &mut Rng) -> (usize, usize) {
    let big = *r.pick(&[513usize, 600, 1000, 2048, 2049, 3000, 4096, 8191, 9999, 10_000, 12_000, 24_000, 32_768, 65_535, 65_536, 70_000]);
    let small = 1 + r.usize_below(3);
    if r.chance(2, 3) {
        (big, small)
    } else {
        (small, big)
    }
}

pub fn gen_limit(r: &mut Rng) -> Option<usize> {
    if r.chance(1, 25) {
        return *r.pick(&[Some(40), Some(50), Some(200), Some(1000), Some(1001), Some(1500), Some(65_535), Some(65_536), Some(70_000)]);
    }
    *r.pick(&[None, None, None, Some(0), Some(0), Some(1), Some(2), Some(5), Some(9), Some(10), Some(11), Some(20), Some(100)])
}

// ---------------------------------------------------------------------------------------------
// App: tokens

fn csi(r: &mut Rng, p: &Profile) -> &'static str {
    if r.below(100) < p.eight_bit as u64 {
        "\u{9b}"
    } else {
        "\x1b["
    }
}

/// a numeric parameter from the value classes around `edge`
pub fn param(r: &mut Rng, edge: usize, p: &Profile) -> String {
    match r.below(16) {
        0 | 1 => String::new(),
        2 => "0".into(),
        3 | 4 => "1".into(),
        5 => format!("{}", edge),
        6 => format!("{}", edge + 1),
        7 => format!("{}", edge.saturating_sub(1)),
        8 => format!("{}", edge / 2),
        9 => (*r.pick(&["255", "256", "257", "1000", "4095", "4096", "4097", "9999", "10000", "12000", "20000", "65534", "65535"])).into(),
        10 => {
            if p.huge && r.chance(1, 3) {
                "65535".into()
            } else {
                format!("{}", edge + 2)
            }
        }
        _ => format!("{}", r.below(edge as u64 + 3)),
    }
}

const TEXT_SET: [char; 32] = ['\u{feff}', '\u{200b}', '\u{ad}', '\u{2028}', '\u{a0}', 'a', 'b', 'c', 'x', 'y', 'z', ' ', ' ', '~', 'q', 'l', 'k', 'j', 'm', '\u{7f}', 'é', 'ß', '日', '本', '`', 'A', 'Z', '0', '#', '\u{1f600}', '\u{10348}', '\u{ffff}'];

pub fn text_char(r: &mut Rng, p: &Profile) -> char {
    if p.wild_text && r.chance(1, 6) {
        wild_char(r)
    } else {
        *r.pick(&TEXT_SET)
    }
}

/// any Unicode scalar value, biased to the interesting classes
pub fn wild_char(r: &mut Rng) -> char {
    let c = match r.below(10) {
        0 => r.below(0x20) as u32,              // C0
        1 => 0x80 + r.below(0x20) as u32,       // C1
        2 => 0x20 + r.below(0x60) as u32,       // ASCII incl DEL
        3 => 0xa0 + r.below(0x60) as u32,       // Latin-1
        4 => *r.pick(&[0x7f, 0xa0, 0xff, 0x100, 0xd7ff, 0xe000, 0xfffd, 0xfffe, 0xffff, 0x10000, 0x10ffff, 0x200b, 0x0301, 0x1f600, 0xfeff, 0xad, 0x2028, 0x2029, 0x85, 0x061c, 0x200e]),
        5 => 0x3000 + r.below(0x6000) as u32,   // CJK-ish
        6 => 0x10000 + r.below(0x100000) as u32, // astral
        _ => r.below(0x110000) as u32,
    };
    char::from_u32(c).unwrap_or('\u{fffd}')
}

fn colour_index(r: &mut Rng) -> u64 {
    if r.chance(1, 2) {
        *r.pick(&[0u64, 1, 7, 8, 9, 15, 16, 17, 231, 232, 254, 255])
    } else {
        r.below(256)
    }
}

fn sgr_params(r: &mut Rng) -> String {
    let n = if r.chance(1, 12) { 8 + r.below(16) } else { 1 + r.below(4) };
    let mut v = vec![];
    for _ in 0..n {
        v.push(match r.below(16) {
            0 => String::new(),
            1 => "0".into(),
            2 => format!("{}", r.pick(&[1, 2, 3, 4, 5, 7, 9, 21, 22, 23, 24, 25, 27, 29, 39, 49])),
            3 => format!("{}", 30 + r.below(8)),
            4 => format!("{}", 40 + r.below(8)),
            5 => format!("{}", 90 + r.below(8)),
            6 => format!("{}", 100 + r.below(8)),
            7 => format!("38;5;{}", colour_index(r)),
            8 => format!("48;5;{}", colour_index(r)),
            9 => format!("38:5:{}", colour_index(r)),
            10 => format!("48:5:{}", colour_index(r)),
            11 => format!("38;2;{};{};{}", colour_index(r), colour_index(r), colour_index(r)),
            12 => format!("48:2:{}:{}:{}", colour_index(r), colour_index(r), colour_index(r)),
            13 => format!("38:2::{}:{}:{}", colour_index(r), colour_index(r), colour_index(r)),
            14 => {
                if r.chance(1, 2) {
                    // truncated / odd colour forms
                    (*r.pick(&["38", "48", "38;5", "48;5", "38;2", "48;2;1", "38;2;1;2", "48;2;10;20", "38:5", "48:2:1:2", "38;7", "48;3;1"])).to_string()
                } else {
                    format!("{}", r.pick(&[6, 8, 10, 11, 20, 26, 28, 50, 51, 59, 60, 89, 98, 99, 108, 200]))
                }
            }
            _ => format!("{}", r.pick(&[1, 2, 3, 4, 5, 7, 9])),
        });
    }
    v.join(";")
}

pub fn inert_payload(r: &mut Rng, osc: bool) -> String {
    let n = r.below(12);
    (0..n)
        .map(|_| match r.below(6) {
            0 => *r.pick(&['é', '日', '\u{a0}', '\u{ffff}', '\u{10ffff}']),
            1 => {
                // C0 other than CAN, SUB, ESC (and BEL inside OSC)
                loop {
                    let c = r.below(0x20) as u32;
                    if c == 0x18 || c == 0x1a || c == 0x1b || (osc && c == 7) {
                        continue;
                    }
                    break char::from_u32(c).unwrap();
                }
            }
            _ => char::from_u32(0x20 + r.below(0x5f) as u32).unwrap(),
        })
        .collect()
}

/// One item that the property C20 declares inert (from its statement and quantifier).
pub fn inert_item(r: &mut Rng) -> String {
    match r.below(11) {
        0 | 1 => {
            let intro = *r.pick(&["\x1b]", "\u{9d}"]);
            let term = *r.pick(&["\x07", "\x1b\\", "\u{9c}"]);
            format!("{}{}{}", intro, inert_payload(r, true), term)
        }
        2 => {
            let intro = *r.pick(&["\x1bP", "\u{90}"]);
            let term = *r.pick(&["\x1b\\", "\u{9c}"]);
            let head: String = match r.below(4) {
                0 => {
                    // long parameter list in the DCS header (more than 32 parameters)
                    let n = 28 + r.below(12);
                    let ps: Vec<String> = (0..n).map(|_| format!("{}", r.below(10))).collect();
                    format!("{}{}", ps.join(";"), r.pick(&['q', '|', 'p', '{']))
                }
                _ => (*r.pick(&["q", "1;2|", "$q", "+q", "?1$p", ":x", "1:2q", "<q", "0;1;0q", "", "1 ", "!"])).to_string(),
            };
            format!("{}{}{}{}", intro, head, inert_payload(r, false), term)
        }
        3 => {
            let intro = *r.pick(&["\x1bX", "\x1b^", "\x1b_", "\u{98}", "\u{9e}", "\u{9f}"]);
            let term = *r.pick(&["\x1b\\", "\u{9c}"]);
            format!("{}{}{}", intro, inert_payload(r, false), term)
        }
        4 | 5 => {
            // CSI with an unimplemented final (no prefix)
            let implemented = "@ABCDEFGHIJKLMPSTWXZ`abdefghlmrstu";
            let finals: Vec<char> = (0x40u8..=0x7e).map(|b| b as char).filter(|c| !implemented.contains(*c)).collect();
            let intro = *r.pick(&["\x1b[", "\u{9b}"]);
            let params = *r.pick(&["", "0", "1", "5;7", "65535", "1:2", ";", "8;3;3", "2", "3;1"]);
            if r.chance(1, 5) {
                // a character beyond U+009F ends the sequence like an (unimplemented) final byte
                let f = *r.pick(&['\u{a0}', '\u{e9}', '\u{ff}', '\u{3a9}', '\u{65e5}', '\u{1f600}', '\u{2028}', '\u{feff}']);
                return format!("{}{}{}", intro, params, f);
            }
            format!("{}{}{}", intro, params, r.pick(&finals))
        }
        6 => {
            // CSI with private marker < = > (any final), or ? with a final other than h / l
            let intro = *r.pick(&["\x1b[", "\u{9b}"]);
            let mk = *r.pick(&['<', '=', '>', '?']);
            let f = loop {
                let f = (0x40 + r.below(0x3f) as u8) as char;
                if mk != '?' || (f != 'h' && f != 'l') {
                    break f;
                }
            };
            format!("{}{}{}{}", intro, mk, r.pick(&["", "1", "6;7", "1049", "4", "25"]), f)
        }
        7 => {
            // CSI with intermediates (not the DECSTR spelling)
            let intro = *r.pick(&["\x1b[", "\u{9b}"]);
            let i1 = (0x20 + r.below(0x10) as u8) as char;
            let f = (0x40 + r.below(0x3f) as u8) as char;
            if i1 == '!' && f == 'p' {
                return inert_item(r);
            }
            let two = if r.chance(1, 4) { format!("{}", (0x20 + r.below(0x10) as u8) as char) } else { String::new() };
            if two == "!" && f == 'p' {
                return inert_item(r);
            }
            format!("{}{}{}{}{}", intro, r.pick(&["", "1", "2;3"]), i1, two, f)
        }
        8 => {
            // unimplemented ESC sequences
            match r.below(2) {
                0 => {
                    let ok: Vec<char> = (0x30u8..=0x7e).map(|b| b as char).filter(|c| !"78cDEHM[]PX^_".contains(*c)).collect();
                    format!("\x1b{}", r.pick(&ok))
                }
                _ => {
                    let i1 = loop {
                        let c = (0x20 + r.below(0x10) as u8) as char;
                        if c != '(' && c != ')' {
                            break c;
                        }
                    };
                    let f = (0x30 + r.below(0x4f) as u8) as char;
                    if i1 == '#' && f == '8' {
                        return inert_item(r);
                    }
                    format!("\x1b{}{}", i1, f)
                }
            }
        }
        9 => {
            // CSI ignore path: ':' first, or a private marker after parameters
            let intro = *r.pick(&["\x1b[", "\u{9b}"]);
            if r.chance(1, 2) {
                let body = *r.pick(&[":1", "1<2", "1;2?", ":", "3 4", "1 ?"]);
                let f = (0x40 + r.below(0x3f) as u8) as char;
                format!("{}{}{}", intro, body, f)
            } else {
                // parameters, intermediate(s), then parameter characters again (ignore path), then a
                // final byte - biased to finals and intermediates that are implemented elsewhere
                let pre = *r.pick(&["", "1", "2;3", "?", "?5"]);
                let inter = *r.pick(&['!', '!', ' ', '$', '#', '\'', '"', '*', '+']);
                let mid: String = (0..1 + r.below(3)).map(|_| (0x30 + r.below(0x10) as u8) as char).collect();
                let f = *r.pick(&['p', 'p', 'm', 'h', 'l', 'H', 'J', 'K', 'r', 'q', 'A', 'u', 's', 't', 'c', 'n']);
                format!("{}{}{}{}{}", intro, pre, inter, mid, f)
            }
        }
        _ => {
            // unassigned C0 / C1 (those with no function), incl. CAN / SUB / ST in ground
            let c0 = [
                0u32, 1, 2, 3, 4, 5, 6, 7, 0x10, 0x11, 0x12, 0x13, 0x14, 0x15, 0x16, 0x17, 0x18, 0x19, 0x1a, 0x1c, 0x1d, 0x1e, 0x1f, 0x80, 0x81, 0x82, 0x83, 0x86, 0x87, 0x89,
                0x8a, 0x8b, 0x8c, 0x8e, 0x8f, 0x91, 0x92, 0x93, 0x94, 0x95, 0x96, 0x97, 0x99, 0x9a, 0x9c,
            ];
            char::from_u32(*r.pick(&c0)).unwrap().to_string()
        }
    }
}

fn garbage(r: &mut Rng, p: &Profile) -> String {
    let intro = csi(r, p);
    match r.below(10) {
        0 => {
            // more than 32 parameters
            let n = 33 + r.below(10);
            let ps: Vec<String> = (0..n).map(|_| format!("{}", r.below(100))).collect();
            format!("{}{}{}", intro, ps.join(";"), r.pick(&['m', 'H', 'r', 'h', 'l', 'A', 't']))
        }
        1 => {
            // more than 6 sub-parameters
            let n = 7 + r.below(5);
            let ps: Vec<String> = (0..n).map(|_| format!("{}", r.below(300))).collect();
            format!("{}{}{}", intro, ps.join(":"), r.pick(&['m', 'H', 'm']))
        }
        2 => format!("{}{}{}", intro, r.pick(&["65536", "99999", "4294967295", "4294967296", "9999999999", "18446744073709551616"]), r.pick(&['A', 'B', 'C', 'D', 'G', 'd', 'H', 'L', 'M', 'S', 'T', 'X', '@', 'P', 'I', 'Z', 'r', 'm'])),
        3 => {
            let cnt = if p.huge { "65535" } else { "300" };
            format!("{}{}{}", intro, cnt, r.pick(&['@', 'P', 'X', 'L', 'M', 'S', 'T', 'A', 'B', 'C', 'D', 'E', 'F', 'I', 'Z', 'a', 'e', 'G', 'd']))
        }
        4 => format!("{}{};{}{}", intro, r.pick(&["65535", "0", "1", "70000"]), r.pick(&["65535", "0", "1", "70000"]), r.pick(&['H', 'r', 'f'])),
        5 => {
            // strings opened and never closed (until something else aborts them)
            format!("{}{}", r.pick(&["\x1b]", "\x1bP", "\x1bX", "\x1b^", "\x1b_", "\u{9d}", "\u{90}", "\u{98}"]), inert_payload(r, false))
        }
        6 => {
            // random scalars
            let n = 1 + r.below(8);
            (0..n).map(|_| wild_char(r)).collect()
        }
        // XTWINOPS resize (disabled in avt; sizes kept moderate so that a tree which enables it is
        // judged by the checks instead of exhausting memory)
        7 => format!("{}8;{};{}t", intro, r.below(120), r.below(300)),
        8 => format!("{}?{}{}", intro, r.pick(&["1049;1049", "47;1047;1049", "6;6;6", "1048;1049;1048", "7;25;1"]), r.pick(&['h', 'l'])),
        _ => {
            let n = 1 + r.below(6);
            (0..n).map(|_| char::from_u32(*r.pick(&[0x1b, 0x9b, 0x90, 0x9d, 0x18, 0x1a, 0x9c, 0x5b, 0x3b, 0x3a, 0x3f, 0x20, 0x30, 0x6d, 0x07])).unwrap()).collect()
        }
    }
}

/// Composite scenario tokens: short multi-step histories whose parts are individually rare to line
/// up (park a saved cursor far away on one screen, come back after the geometry changed, ...).
fn combo(r: &mut Rng, cols: usize, rows: usize, p: &Profile) -> String {
    let intro = csi(r, p);
    let alt = *r.pick(&["47", "1047", "1049"]);
    let alt2 = *r.pick(&["47", "1047", "1049"]);
    let save = *r.pick(&["\x1b7", "\x1b[s", "\x1b[?1048h"]);
    let restore = *r.pick(&["\x1b8", "\x1b[u", "\x1b[?1048l"]);
    let far = *r.pick(&["\x1b[999;999H", "\x1b[999;1H", "\x1b[1;999H", "\x1b[999;999Hx", "\x1b[65535C\x1b[65535C", "\x1b[65535B\x1b[65535B", "\x1b[65535;65535H\x1b[65535C\x1b[65535B"]);
    match r.below(12) {
        0 => format!("{}?{}h{}{}{}?{}l", intro, alt, far, save, intro, alt2),
        1 => format!("{}?{}h{}X", intro, alt, restore),
        2 => format!("{}{}", far, save),
        3 => format!("{}XY", restore),
        4 => format!("{}?6h{}{}{};{}r{}", intro, save, intro, 2 + r.usize_below(rows.max(1)), rows, restore),
        5 => format!("{}{};{}r{}?6h{}", intro, 1 + r.usize_below(rows), rows + 1 - r.usize_below(2), intro, far),
        6 => format!("{}?{}h{}{}\x1b[!p{}?{}l", intro, alt, far, save, intro, alt2),
        7 => format!("{}{}{}?7l{}", far, "x".repeat(cols.min(40)), intro, "yz"),
        8 => format!("{}1;{}r{}{}", intro, rows.saturating_sub(1).max(1), far, "\n".repeat(1 + r.usize_below(3))),
        9 => format!("{}?{}h{}?{}h{}", intro, alt, intro, alt2, restore),
        10 => format!("{}{}{}{}", "\x1b[?6h", far, save, "\x1b[?6l"),
        _ => format!("{}{}{}", save, "\x1bc", restore),
    }
}

const PARTIALS: [&str; 24] = [
    "\x1b", "\x1b[", "\x1b[3", "\x1b[3;", "\x1b[?", "\x1b[?6", "\x1b[38:2:1", "\x1b(", "\x1b#", "\x1b]", "\x1bP", "\x1bP1", "\x1bP$", "\x1bPq", "\x1bX", "\x1b[ ", "\x1b[1 ",
    "\x1b[:", "\x1bP:", "\u{9b}", "\u{9b}1;2", "\u{90}", "\u{9d}ti", "\x1b[1;2;3;4;5;6;7;8;9;10;11;12;13;14;15;16;17;18;19;20;21;22;23;24;25;26;27;28;29;30;31;32;33;34",
];

/// One token of family `fam`.
pub fn gen_token_of(r: &mut Rng, fam: usize, cols: usize, rows: usize, p: &Profile) -> String {
    let intro = csi(r, p);
    match fam {
        F_TEXT => {
            let max = (p.text_widths * cols + 2).max(2) as u64;
            let n = if r.chance(1, 4) {
                // lengths around multiples of the width
                let k = 1 + r.usize_below(p.text_widths.max(1));
                (k * cols + r.usize_below(3)).saturating_sub(1).max(1)
            } else {
                1 + r.below(max) as usize
            };
            // on gigantic screens keep text runs short (cost = characters x cells in the model checks)
            let n = if cols > 5000 { n.min(8) } else { n.min(400) };
            (0..n).map(|_| text_char(r, p)).collect()
        }
        F_C0 => (*r.pick(&[
            "\r\n", "\r\n", "\n", "\r", "\x08", "\t", "\x0b", "\x0c", "\u{84}", "\u{85}", "\u{8d}", "\x1bM", "\x1bD", "\x1bE", "\x08\x08", "\n\n",
        ]))
        .into(),
        F_CURREL => {
            let f = *r.pick(&['A', 'B', 'C', 'D', 'E', 'F', 'I', 'Z', 'a', 'e']);
            let e = if "ABEFe".contains(f) { rows } else { cols };
            format!("{}{}{}", intro, param(r, e, p), f)
        }
        F_CURABS => match r.below(3) {
            0 => {
                let f = *r.pick(&['G', '`', 'd']);
                let e = if f == 'd' { rows } else { cols };
                format!("{}{}{}", intro, param(r, e, p), f)
            }
            _ => format!("{}{};{}{}", intro, param(r, rows, p), param(r, cols, p), r.pick(&['H', 'f'])),
        },
        F_SCROLL => match r.below(8) {
            0 if p.bursts && cols <= 200 && r.chance(1, 12) => {
                // a burst of line feeds: thousands of rows scroll off
                let n = if cols <= 3 && r.chance(1, 25) { 72_200 } else { *r.pick(&[1_150usize, 1_700, 4_000]) };
                format!("x{}", "\n".repeat(n))
            }
            0 => "\n".repeat(1 + r.usize_below(rows.min(60) + 2)),
            1 => "\x1bM".repeat(1 + r.usize_below(rows.min(60) + 1)),
            2 => (*r.pick(&["\x1bD", "\x1bE", "\u{84}", "\u{85}", "\u{8d}"])).into(),
            _ => {
                let f = *r.pick(&['S', 'T', 'L', 'M']);
                format!("{}{}{}", intro, param(r, rows, p), f)
            }
        },
        F_EDIT => match r.below(8) {
            0 | 1 => format!("{}{}{}", intro, r.pick(&["", "0", "1", "2", "3"]), r.pick(&['J', 'K'])),
            2 => "\x1b#8".into(),
            3 => {
                // REP: cost is the count itself, keep huge counts off wide screens
                let mut q = p.clone();
                q.huge = p.huge && cols * rows <= 64;
                format!("{}{}b", intro, param(r, cols, &q))
            }
            _ => {
                let f = *r.pick(&['@', 'P', 'X']);
                format!("{}{}{}", intro, param(r, cols, p), f)
            }
        },
        F_SGR => format!("{}{}m", intro, sgr_params(r)),
        F_MODES => match r.below(4) {
            0 => {
                let m = *r.pick(&["4", "20", "4"]);
                format!("{}{}{}", intro, m, r.pick(&['h', 'l']))
            }
            _ => {
                let m = *r.pick(&["1", "6", "7", "25", "6", "7", "6;7", "7;6", "25;1", "2004", "2026", "1000", "1006", "12", "5", "3", "1004", "2026;7", "69",  "1;2026", "1;2;3;4;5;6;7;8;9;10;11;12;13;14;15;16;17;18;19;25", "7;7;7;7;7;7;7;7;7;7;7;7;7;7;7;7;7;6"]);
                format!("{}?{}{}", intro, m, r.pick(&['h', 'l']))
            }
        },
        F_MARGINS => format!("{}{};{}r", intro, param(r, rows, p), param(r, rows, p)),
        F_TABS => match r.below(4) {
            0 => (*r.pick(&["\x1bH", "\u{88}"])).into(),
            1 => format!("{}{}W", intro, r.pick(&["", "0", "2", "5"])),
            2 => format!("{}{}g", intro, r.pick(&["", "0", "3"])),
            _ => "\t".into(),
        },
        F_CHARSETS => (*r.pick(&["\x1b(0", "\x1b(B", "\x1b)0", "\x1b)B", "\x0e", "\x0f", "\x0e", "\x0f"])).into(),
        F_SAVE => (*r.pick(&[
            "\x1b7", "\x1b8", "\x1b[s", "\x1b[u", "\x1b[?1048h", "\x1b[?1048l", "\u{9b}s", "\u{9b}u", "\x1b7", "\x1b8", "\x1b[s", "\x1b[u", "\x1b[?1048h", "\x1b[?1048l",
            "\x1b[?6;1048h", "\x1b[?7;1049h", "\x1b[?1048;6h", "\x1b[?7;1048;6h", "\x1b[?6;7;1049h", "\x1b[?7;1048l", "\x1b[?1048;7l", "\x1b[?6;1048l",
        ]))
        .into(),
        F_ALT => {
            let m = *r.pick(&["47", "1047", "1049", "1049", "1047;1048", "1048;1047"]);
            format!("{}?{}{}", intro, m, r.pick(&['h', 'l']))
        }
        F_STRINGS => inert_item(r),
        F_RESET => {
            if p.allow_ris && (!p.allow_decstr || r.chance(1, 3)) {
                "\x1bc".into()
            } else if p.allow_decstr {
                format!("{}!p", intro)
            } else {
                String::new()
            }
        }
        F_GARBAGE => garbage(r, p),
        F_PARTIAL => (*r.pick(&PARTIALS)).into(),
        F_COMBO => combo(r, cols, rows, p),
        F_RECORDED => recorded_slice(r, p.recorded_max),
        _ => String::new(),
    }
}

pub fn gen_token(r: &mut Rng, cols: usize, rows: usize, p: &Profile) -> (usize, String) {
    let fam = r.weighted(&p.fam);
    (fam, gen_token_of(r, fam, cols, rows, p))
}

// ---------------------------------------------------------------------------------------------
// Pipe: from a stream of atoms to feed events (S1) and damage (S5)

#[derive(Clone, Debug)]
pub enum Atom {
    /// a character and whether a cut before it would fall inside a token
    Ch(char, bool),
    Ev(Event),
}

#[derive(Clone, Copy, Debug, PartialEq, Eq)]
pub enum CutPolicy {
    Whole,
    TokenAligned,
    RandomK,
    EveryChar,
    FeedLoop,
    Mixed,
}

pub const CUT_POLICIES: [CutPolicy; 6] = [CutPolicy::Whole, CutPolicy::TokenAligned, CutPolicy::RandomK, CutPolicy::EveryChar, CutPolicy::FeedLoop, CutPolicy::Mixed];

#[derive(Clone, Copy, Debug, PartialEq, Eq)]
pub enum DrainPolicy {
    AlwaysAll,
    Mixed,
    AlwaysDrop,
}

pub fn gen_drain(r: &mut Rng, dp: DrainPolicy) -> Drain {
    match dp {
        DrainPolicy::AlwaysAll => Drain::All,
        DrainPolicy::AlwaysDrop => Drain::Drop,
        DrainPolicy::Mixed => match r.below(4) {
            0 | 1 => Drain::All,
            2 => Drain::Partial(r.usize_below(3)),
            _ => Drain::Drop,
        },
    }
}

/// Turn atoms into events. Consecutive characters are grouped into feed calls per `policy`.
pub fn pipe(r: &mut Rng, atoms: &[Atom], policy: CutPolicy, dp: DrainPolicy) -> Vec<Event> {
    let mut out = vec![];
    let mut i = 0;
    while i < atoms.len() {
        match &atoms[i] {
            Atom::Ev(e) => {
                out.push(e.clone());
                i += 1;
            }
            Atom::Ch(..) => {
                let mut j = i;
                while j < atoms.len() && matches!(atoms[j], Atom::Ch(..)) {
                    j += 1;
                }
                cut_run(r, &atoms[i..j], policy, dp, &mut out);
                i = j;
            }
        }
    }
    out
}

fn cut_run(r: &mut Rng, run: &[Atom], policy: CutPolicy, dp: DrainPolicy, out: &mut Vec<Event>) {
    let chars: Vec<(char, bool)> = run.iter().map(|a| if let Atom::Ch(c, b) = a { (*c, *b) } else { unreachable!() }).collect();
    let n = chars.len();
    let mut i = 0;
    let mut pol = policy;
    while i < n {
        if policy == CutPolicy::Mixed {
            pol = *r.pick(&[CutPolicy::Whole, CutPolicy::TokenAligned, CutPolicy::RandomK, CutPolicy::EveryChar, CutPolicy::FeedLoop, CutPolicy::RandomK]);
        }
        let end = match pol {
            CutPolicy::Whole => {
                if policy == CutPolicy::Mixed {
                    (i + 1 + r.usize_below(40)).min(n)
                } else {
                    n
                }
            }
            CutPolicy::TokenAligned => {
                // up to the start of one of the next token starts
                let mut e = i + 1;
                let skip = r.usize_below(3);
                let mut seen = 0;
                while e < n {
                    if !chars[e].1 {
                        if seen == skip {
                            break;
                        }
                        seen += 1;
                    }
                    e += 1;
                }
                e
            }
            // very long runs (line-feed bursts) are not cut into tens of thousands of calls
            CutPolicy::RandomK | CutPolicy::FeedLoop | CutPolicy::Mixed => (i + 1 + r.usize_below(8) + n / 60).min(n),
            CutPolicy::EveryChar => (i + 1 + n / 60).min(n),
        };
        let s: String = chars[i..end].iter().map(|c| c.0).collect();
        if policy == CutPolicy::Mixed && r.chance(1, 40) {
            // an empty call is a legal call
            out.push(Event::FeedStr { s: String::new(), drain: gen_drain(r, dp) });
        }
        if pol == CutPolicy::FeedLoop {
            out.push(Event::Feed { s });
        } else {
            out.push(Event::FeedStr { s, drain: gen_drain(r, dp) });
        }
        i = end;
    }
}

/// S5 damage applied to one token (the content both twins see; a fault in the proper sense only
/// for the robustness properties).
pub fn damage(r: &mut Rng, tok: &str) -> (String, &'static str) {
    let mut cs: Vec<char> = tok.chars().collect();
    if cs.is_empty() {
        return (String::new(), "none");
    }
    match r.below(5) {
        0 => {
            let i = r.usize_below(cs.len());
            cs[i] = wild_char(r);
            (cs.into_iter().collect(), "substitute")
        }
        1 => {
            let k = r.usize_below(cs.len());
            cs.truncate(k);
            (cs.into_iter().collect(), "truncate")
        }
        2 => {
            let i = r.usize_below(cs.len());
            cs.remove(i);
            (cs.into_iter().collect(), "drop_char")
        }
        3 => {
            let mut d = cs.clone();
            d.extend(cs.iter());
            (d.into_iter().collect(), "duplicate")
        }
        _ => {
            cs.reverse();
            (cs.into_iter().collect(), "reorder")
        }
    }
}

pub fn gen_config(r: &mut Rng, max_cols: usize, max_rows: usize, limits: bool) -> Config {
    let (cols, rows) = gen_size(r, max_cols, max_rows);
    let (cols, rows) = maybe_gigantic(r, (cols, rows));
    Config { cols, rows, limit: if limits { gen_limit(r) } else { None } }
}
