#!/usr/bin/env python3
"""Regenerates /verif/MANIFEST.json from the table below (one entry per claimed property)."""
import json, os
ROOT = os.path.dirname(os.path.dirname(os.path.abspath(__file__)))
ALL = [f"C{i:02d}" for i in range(1, 21)]

NA = {
    "C07": "pure function of (screen state, one ED/EL/ECH/ICH/DCH/DECALN command): no schedule, fault, crash-point, cancellation or interleaving dimension for a simulator to own; only model-based input generation would remain, which is not this technique (DESIGN.md §0.1, §5 C07, §7)",
    "C08": "pure left fold over the SGR parameters received, read back through accessors: no environment decision (chunking, resize timing, restart, consumer, damage, configuration) enters the statement (DESIGN.md §0.1, §5 C08, §7)",
}

# id -> (technique, level text, level_note, design_ref)
CHECKS = {
    "C01": ("deterministic simulation with fault injection: seeded chaos sessions (cuts, resizes, snapshots, drain policies, stream damage) with a panic/hang invariant after every call",
            "Seeded exploration: every public operation is driven by a PRNG-scheduled environment (chunking, resize timing, snapshot/restart, consumer policy, stream damage, all sizes and limits) in a build with overflow and bounds checks; each call must return (catch_unwind) within the hang limit. Sampling, not proof: a clean batch is evidence.",
            "trusts: catch_unwind sees every panic (panic=unwind build, overflow-checks and debug-assertions on); hang = run > 60 s; allocation failure and mem::forget(Changes) out of scope", "§5 C01"),
    "C02": ("deterministic simulation with fault injection: geometry invariants evaluated after every simulated call of chaos sessions",
            "Seeded exploration: the statement's geometry invariants are evaluated through the public API after every feed_str / feed(char) / resize of PRNG-scheduled chaos sessions (resizes while the alternate screen shows, mid-sequence, with wrap pending; damaged streams; all sizes and limits).",
            "trusts: TextUnwrapper::push as the reader of the soft-wrap mark; 'col == cols only by printing' is checked as a necessary condition via the lock-step parser's function stream", "§5 C02"),
    "C09": ("deterministic simulation: configuration/chunking twins of a text session (S6 swarm + S1), text oracle from the input",
            "Seeded exploration of (text, geometry, chunking) triples: the same text is fed under two geometries and an arbitrary chunking; text() and TextUnwrapper(lines()) are compared with the input lines and across geometries. A content property: the simulator contributes the configurations and cut points, the deciding oracle is the twin comparison.",
            "trusts: the reference 'input split at CR LF, right-trimmed'; white space other than U+0020 and DEL are not generated", "§5 C09"),
    "C10": ("deterministic simulation with fault injection: resize events injected at scheduler-chosen instants (mid-sequence, wrap pending) into primary-screen histories; logical-line relation checked across every resize",
            "Seeded exploration of resize timing: arbitrary primary-screen histories with resizes landing between any two characters and chains of resizes between any sizes >= 1x1; the relation the statement gives between the logical views before and after is evaluated at every resize, plus geometry.",
            "trusts: logical lines reconstructed from lines() + TextUnwrapper wrap marks; 'same character' only judged when the cursor was on a cell of the trimmed line", "§5 C10"),
    "C12": ("deterministic simulation: twin executions of one string under PRNG-chosen chunkings (feed_str pieces cut anywhere, feed() loops) versus one feed_str",
            "Seeded exploration of cut sets: after a shared prefix history the same string is delivered as scheduler-chosen pieces (cuts inside sequences and parameters, feed(char) loops, mixtures) and as one feed_str; view, cursor, modes (dump) and, when unlimited, lines() must agree.",
            "trusts: dump() equality of two instances of the same build as the observer of modes; lines() not compared under a limit (C14 covers the stream); known finding F6 matched by state predicate", "§5 C12"),
    "C13": ("deterministic simulation with fault injection: scroll-heavy sessions with resizes, every limit, consumer cancellation (drop / partial drain); bound invariant after every call",
            "Seeded exploration: the retention bound is evaluated after every feed_str / resize of scroll-heavy sessions under every limit class, with the consumer draining all, some or none of Changes.scrollback, narrowing resizes and alternate-screen excursions.",
            "trusts: alternate-screen flag derived from the lock-step parser's DECSET/DECRST/RIS functions", "§5 C13"),
    "C14": ("deterministic simulation: conservation / exactly-once check of the scrollback stream of a limited terminal under PRNG-chosen chunkings against an unlimited twin",
            "Seeded exploration: lines handed out through every Changes.scrollback plus the final lines() of a limited terminal under an arbitrary chunking are compared line by line (order, count, content) with an unlimited terminal fed the same characters at once; TextCollector outputs are compared too.",
            "trusts: runs containing RIS / resize / ending on the alternate screen are outside the statement and skipped; known finding F7 (TextCollector trailing empty lines) matched by predicate", "§5 C14"),
    "C15": ("deterministic simulation with fault injection: view diff around every simulated call window versus the reported changed-line set",
            "Seeded exploration: around every feed_str / resize window of chaos sessions (cuts define the windows; feed(char) calls accumulate) the visible rows are diffed cell by cell and every changed or new row must be in Changes.lines.",
            "trusts: cell comparison through Line::cells(); a wrap-mark-only change is not a cell change", "§5 C15"),
    "C19": ("deterministic simulation with fault injection: reset-recovery twin - chaos history (truncated sequences, damage, resizes), ESC c, continuation, compared step by step with a fresh terminal",
            "Seeded exploration: from histories that leave the parser and terminal in arbitrary states (partial tokens, alternate screen, modes, tabs, margins, charsets, saved contexts, resizes), ESC c is delivered under different cuts and the terminal is compared with a fresh one immediately and after every continuation event.",
            "trusts: RefParser to locate the RIS; fresh = builder with current size and configured limit", "§5 C19"),
    "C20": ("deterministic simulation: inert items delivered under PRNG-chosen cuts inside the item after an arbitrary prior history; before/after twin of the same instance plus per-call change reports",
            "Seeded exploration: control strings, unimplemented CSI/ESC sequences and unassigned C0/C1 are delivered in pieces cut anywhere; screen, lines, cursor, modes (dump) must be unchanged, no call may report a changed line, nothing may be dispatched and the parser must be back in Ground. A content property whose per-call / cut aspect is the simulated part.",
            "trusts: generator categories taken from the statement; RefParser confirms each item is inert before it is judged", "§5 C20"),
}

def main():
    checks = []
    for pid in ALL:
        if pid not in CHECKS:
            continue
        tech, text, note, ref = CHECKS[pid]
        checks.append({
            "property_id": pid,
            "quick_cmd": f"bin/check {pid} --tier quick",
            "thorough_cmd": f"bin/check {pid} --tier thorough",
            "evidence_file": f"evidence/{pid}.json",
            "replay_cmd_template": "bin/check --replay {path}",
            "engine": "avt-sim",
            "level_claimed": {"category": "exploration", "text": text, "design_ref": ref},
            "level_note": note,
            "technique": tech,
        })
    na = []
    for pid in ALL:
        if pid in CHECKS:
            continue
        reason = NA.get(pid, "check under construction (DESIGN.md §5); will be claimed once its simulated check is built and clean on the unchanged tree")
        na.append({"property_id": pid, "reason": reason})
    m = {
        "version": 1,
        "setup_cmd": "bin/build",
        "hooks": {
            "guard": "avt_verif",
            "enable": "none needed: no hook exists in /repo (avt is single-threaded, clock-free and I/O-free; every seam is the public API). The cfg name is reserved only.",
            "baseline_off_cmd": "cd /repo && cargo test --workspace --no-fail-fast --offline",
            "source_commits": [],
            "add_only": True,
        },
        "engines": [{
            "name": "avt-sim", "path": "sim", "serves_properties": sorted(CHECKS.keys()),
            "kind_free_text": "seeded deterministic simulator of avt's environment (chunking, resize timing, snapshot/restart, scrollback consumer, stream damage, configuration) with invariant, twin-execution and reference-model oracles; one PRNG per run, concrete event traces as replay files",
        }],
        "checks": checks,
        "notes": "Default VERIF_SEED=1. Exit 0 = held on everything explored, 1 = VIOLATION line, 2 = harness error (never a verdict). See DESIGN.md.",
        "not_applicable": na,
    }
    json.dump(m, open(os.path.join(ROOT, "MANIFEST.json"), "w"), indent=1)
    print("MANIFEST.json:", len(checks), "checks,", len(na), "not applicable")

if __name__ == "__main__":
    main()
