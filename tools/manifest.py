#!/usr/bin/env python3
"""Regenerates /verif/MANIFEST.json from the table below (one entry per claimed property)."""
import json, os
ROOT = os.path.dirname(os.path.dirname(os.path.abspath(__file__)))
ALL = [f"C{i:02d}" for i in range(1, 21)]

NA = {
    "C07": "pure function of (screen state, one ED/EL/ECH/ICH/DCH/DECALN command): no schedule, fault, crash-point, cancellation or interleaving dimension for a simulator to own; only model-based input generation would remain, which is not this technique (DESIGN.md §0.1, §5 C07, §7)",
    "C08": "pure left fold over the SGR parameters received, read back through accessors: no environment decision (chunking, resize timing, restart, consumer, damage, configuration) enters the statement (DESIGN.md §0.1, §5 C08, §7)",
}

# id -> (technique, level text, level_note, design_ref)
CHECKS = {
    "C01": ("deterministic simulation with fault injection: seeded chaos sessions (cuts, resizes, snapshots, drain policies, stream damage) with a panic / hang / resize-cost invariant after every call",
            "Seeded exploration: every public operation is driven by a PRNG-scheduled environment (chunking, resize timing, snapshot/restart, consumer policy, stream damage, all sizes and limits) in a build with overflow and bounds checks; each call must return (catch_unwind) within the hang limit, and the CPU time of every resize must stay within a budget linear in the cells the terminal holds (running time bounded by the work requested; resizes to and from geometries up to 70000 columns or rows). Sampling, not proof: a clean batch is evidence.",
            "trusts: catch_unwind sees every panic (panic=unwind build, overflow-checks and debug-assertions on); hang = run > 120 s; resize cost = thread CPU time vs 500 ms + 5 us per cell (~50x the measured linear cost), an excess re-measured three times on fresh terminals and the fastest of four judged; feed cost is not judged; allocation failure of legitimately huge requests and mem::forget(Changes) out of scope", "§5 C01"),
    "C02": ("deterministic simulation with fault injection: geometry invariants evaluated after every simulated call of chaos sessions",
            "Seeded exploration: the statement's geometry invariants are evaluated through the public API after every feed_str / feed(char) / resize of PRNG-scheduled chaos sessions (resizes while the alternate screen shows, mid-sequence, with wrap pending; damaged streams; all sizes and limits).",
            "trusts: TextUnwrapper::push as the reader of the soft-wrap mark; 'col == cols only by printing with auto-wrap on' is checked as necessary conditions via the lock-step parser's function stream and the hidden-state tracker's auto-wrap flag (no explicit placement after the last print, same row, auto-wrap on at some print when the position is newly reached)", "§5 C02"),
    "C03": ("deterministic simulation at parser level: lock-step of the real parser with a table-driven reference parser over seeded sequence streams with truncation faults and resynchronisation; plus an enumerated single-step table (all scalars x 14 states x backgrounds)",
            "Refinement against the small executable reference parser (an oracle kind of this family): seeded streams of complete, truncated and damaged sequences (truncation followed by CAN/SUB/ESC/C1/ST/BEL/nothing, then intact tokens - bounded recovery, no stale-parameter leakage) are compared state by state and function by function; the single-step table over every scalar value is enumerated and reported separately as such; an end-to-end twin compares a Vt fed the stream in pieces with a Vt fed the canonical rendering of the reference parser's functions.",
            "trusts: RefParser (Williams' table + the four stated deviations), parameters rebuilt per sequence; colour components > 255 outside the statement; the schedule dimension of this content property is truncation/resynchronisation only", "§5 C03"),
    "C04": ("deterministic simulation: refinement of every Print/Rep step against the reference terminal model, in states produced by seeded sessions with resizes injected at any instant",
            "Refinement against the reference model: one character per call, full observation after each; every Print/Rep post-state (cells, pens, marks, scrollback, cursor, frame) must equal step(observed pre-state + hidden model state, f). The simulator contributes the states only an environment event creates (wrap pending across a width change, region reset/kept by resizes, 1-column screens); it is a content property otherwise. A twin fed the same events with their original call structure (multi-character calls, feed() loops) must show the same screen after every event.",
            "trusts: RefTerm (DESIGN.md §4) incl. its tolerated corners; current pen = model's fold of reported SGR functions", "§5 C04"),
    "C05": ("deterministic simulation: refinement of every cursor-command step against the reference terminal model, in states produced by seeded sessions with resizes",
            "Refinement against the reference model: for every cursor movement / addressing function the observed cursor must equal the model's (margins, origin mode, tab stops, wrap-pending column are hidden model state) and cells, marks and scrollback must be unchanged; resizes at any instant create the region-reset / region-kept states.",
            "trusts: RefTerm; tolerated: cursor after an invalid DECSTBM, CBT from wrap-pending with a stop on the last column", "§5 C05"),
    "C06": ("deterministic simulation: refinement of every scrolling step against the reference terminal model incl. scrollback growth in order, in states produced by seeded sessions with resizes",
            "Refinement against the reference model: for every scrolling function the whole observable state (range shifted, blanks in the current pen, frame, scrollback grown by exactly the rows scrolled off a top-anchored primary range, in order) must equal the model's prediction from the observed pre-state; both screens; after resizes.",
            "trusts: RefTerm; ED 3 tolerated; on the alternate screen only the view is compared", "§5 C06"),
    "C11": ("deterministic simulation with fault injection: crash/restart at arbitrary character positions with only dump() surviving; behavioural equivalence by probe battery on forks, lock-step continuation and second-generation restart",
            "Seeded exploration of snapshot instants (inside ESC/CSI/DCS/OSC sequences and parameter lists, on either screen, any modes): the restored terminal is compared with the original immediately, through ~48 single-purpose probes on forks, through the actual remainder of the session in lock-step and through a second-generation restart. Known findings F4/F5 are attributed by state predicates.",
            "trusts: fork by replay of the event prefix; tracker state for the two matchers (F4 is matched only in the sub-zone where dump()'s CSI u workaround cannot succeed; the rest of the 'origin mode, cursor outside the region' zone is judged); continuations contain no resize", "§5 C11"),
    "C16": ("deterministic simulation with fault injection: alternate-screen excursions with resizes injected during the excursion; primary screen compared before/throughout/after",
            "Seeded exploration of excursions (enter 47/1047/1049, arbitrary input, resizes interleaved, leave by any of the three): blank entry in the current pen, text() constant throughout, primary lines() identical on return, 1049 cursor restore; with resizes the logical-line relation, geometry and same-character clause.",
            "trusts: function stream for entry/exit, tracker pen and resized flag, logical-line reconstruction; under a limit a trim pending since before the excursion may run on return (exactly to rows + limit, handed out through that call's Changes.scrollback)", "§5 C16"),
    "C17": ("deterministic simulation: save/restore round trips with intervening input, screen switches, soft/hard resets and resizes; restored context measured by probes on forks",
            "Seeded exploration of save -> anything -> restore histories on both screens for all four spellings: position equals the per-screen saved one (or lies inside the screen after a resize), pen / origin / auto-wrap are measured by single-purpose probes on forks and compared with the tracker's saved context.",
            "trusts: hidden-state tracker (per-screen saved contexts, pen fold); multi-mode DECSET/DECRST not judged", "§5 C17"),
    "C18": ("deterministic simulation with fault injection: chains of resize events around tab set/clear operations; measurement sweeps on forks against a set model and a fresh-terminal twin",
            "Seeded exploration of widths (biased to multiples of 8 +-1), set/clear operations at all columns and resize chains: HT/CBT/CHT n/CBT n sweeps on forks must visit exactly the stops of the set model, and a never-customised terminal must tab like a fresh one of the current width.",
            "trusts: tracker tab-stop set (defaults, narrowing drops, widening adds multiples of 8 in [old,new))", "§5 C18"),
    "C09": ("deterministic simulation: configuration/chunking twins of a text session (S6 swarm + S1), text oracle from the input",
            "Seeded exploration of (text, geometry, chunking) triples: the same text is fed under two geometries and an arbitrary chunking, and additionally resized from the first geometry to the second after the text and between two of its lines; text() and TextUnwrapper(lines()) are compared with the input lines and across geometries; 1 in 60 runs scrolls 300-5000 lines. A content property: the simulator contributes the configurations and cut points, the deciding oracle is the twin comparison.",
            "trusts: the reference 'input split at CR LF, right-trimmed'; white space other than U+0020 and DEL are not generated", "§5 C09"),
    "C10": ("deterministic simulation with fault injection: resize events injected at scheduler-chosen instants (mid-sequence, wrap pending) into primary-screen histories; logical-line relation checked across every resize",
            "Seeded exploration of resize timing: arbitrary primary-screen histories with resizes landing between any two characters and chains of resizes between any sizes >= 1x1; the relation the statement gives between the logical views before and after is evaluated at every resize, plus geometry.",
            "trusts: logical lines reconstructed from lines() + TextUnwrapper wrap marks; 'same character' only judged when the cursor was on a cell of the trimmed line", "§5 C10"),
    "C12": ("deterministic simulation: twin executions of one string under PRNG-chosen chunkings (feed_str pieces cut anywhere, feed() loops) versus one feed_str",
            "Seeded exploration of cut sets: after a shared prefix history the same string is delivered as scheduler-chosen pieces (cuts inside sequences and parameters, feed(char) loops, mixtures) and as one feed_str; view, cursor, modes (dump) and, when unlimited, lines() must agree, and must keep agreeing through a shared continuation of further input and resizes.",
            "trusts: dump() equality of two instances of the same build as the observer of modes; lines() not compared under a limit (C14 covers the stream); a shared continuation after the twins agreed (resizes only with unlimited scrollback); finding F6 (feed() never trimmed the alternate screen) was reported by this check and is fixed in /repo ce521c3", "§5 C12"),
    "C13": ("deterministic simulation with fault injection: scroll-heavy sessions with resizes, every limit, consumer cancellation (drop / partial drain); bound invariant after every call",
            "Seeded exploration: the retention bound is evaluated after every feed_str / resize of scroll-heavy sessions under every limit class, with the consumer draining all, some or none of Changes.scrollback, narrowing resizes and alternate-screen excursions.",
            "trusts: alternate-screen flag derived from the lock-step parser's DECSET/DECRST/RIS functions", "§5 C13"),
    "C14": ("deterministic simulation: conservation / exactly-once check of the scrollback stream of a limited terminal under PRNG-chosen chunkings against an unlimited twin",
            "Seeded exploration: lines handed out through every Changes.scrollback plus the final lines() of a limited terminal under an arbitrary chunking are compared line by line (order, count, content) with an unlimited terminal fed the same characters at once; TextCollector outputs are compared too.",
            "trusts: runs containing RIS / resize / ending on the alternate screen are outside the statement and skipped; limits 0..200 and unlimited (an unlimited terminal must hand out nothing); known finding F7 (TextCollector trailing empty lines) matched by predicate", "§5 C14"),
    "C15": ("deterministic simulation with fault injection: view diff around every simulated call window versus the reported changed-line set",
            "Seeded exploration: around every feed_str / resize window of chaos sessions (cuts define the windows; feed(char) calls accumulate) the visible rows are diffed cell by cell and every changed or new row must be in Changes.lines.",
            "trusts: cell comparison through Line::cells(); a wrap-mark-only change is not a cell change", "§5 C15"),
    "C19": ("deterministic simulation with fault injection: reset-recovery twin - chaos history (truncated sequences, damage, resizes), ESC c, continuation, compared step by step with a fresh terminal",
            "Seeded exploration: from histories that leave the parser and terminal in arbitrary states (partial tokens, alternate screen, modes, tabs, margins, charsets, saved contexts, resizes), ESC c is delivered under different cuts and the terminal is compared with a fresh one (view, lines, cursor, cursor-key mode, text, dump, changed-line reports) immediately and after every continuation event.",
            "trusts: RefParser to locate the RIS; fresh = builder with current size and configured limit", "§5 C19"),
    "C20": ("deterministic simulation: inert items delivered under PRNG-chosen cuts inside the item after an arbitrary prior history; before/after twin of the same instance plus per-call change reports",
            "Seeded exploration: control strings, unimplemented CSI/ESC sequences and unassigned C0/C1 are delivered in pieces cut anywhere; screen, lines, cursor, modes (dump) must be unchanged, no call may report a changed line, nothing may be dispatched and the parser must be back in Ground. A content property whose per-call / cut aspect is the simulated part.",
            "trusts: generator categories taken from the statement; RefParser confirms each item is inert before it is judged", "§5 C20"),
}

def main():
    checks = []
    for pid in ALL:
        if pid not in CHECKS:
            continue
        tech, text, note, ref = CHECKS[pid]
        checks.append({
            "property_id": pid,
            "quick_cmd": f"bin/check {pid} --tier quick",
            "thorough_cmd": f"bin/check {pid} --tier thorough",
            "evidence_file": f"evidence/{pid}.json",
            "replay_cmd_template": "bin/check --replay {path}",
            "engine": "avt-sim",
            "level_claimed": {"category": "exploration", "text": text, "design_ref": ref},
            "level_note": note,
            "technique": tech,
        })
    na = []
    for pid in ALL:
        if pid in CHECKS:
            continue
        reason = NA.get(pid, "check under construction (DESIGN.md §5); will be claimed once its simulated check is built and clean on the unchanged tree")
        na.append({"property_id": pid, "reason": reason})
    m = {
        "version": 1,
        "setup_cmd": "bin/build",
        "hooks": {
            "guard": "avt_verif",
            "enable": "none needed: no hook exists in /repo (avt is single-threaded, clock-free and I/O-free; every seam is the public API). The cfg name is reserved only.",
            "baseline_off_cmd": "cd /repo && cargo test --workspace --no-fail-fast --offline",
            "source_commits": [],
            "add_only": True,
        },
        "engines": [{
            "name": "avt-sim", "path": "sim", "serves_properties": sorted(CHECKS.keys()),
            "kind_free_text": "seeded deterministic simulator of avt's environment (chunking, resize timing, snapshot/restart, scrollback consumer, stream damage, configuration) with invariant, twin-execution and reference-model oracles; one PRNG per run, concrete event traces as replay files",
        }],
        "checks": checks,
        "notes": "Default VERIF_SEED=1. Exit 0 = held on everything explored, 1 = VIOLATION line, 2 = harness error (never a verdict). See DESIGN.md.",
        "not_applicable": na,
    }
    json.dump(m, open(os.path.join(ROOT, "MANIFEST.json"), "w"), indent=1)
    print("MANIFEST.json:", len(checks), "checks,", len(na), "not applicable")

if __name__ == "__main__":
    main()
