#!/usr/bin/env python3
"""Regenerates /verif/MANIFEST.json from the table below (one entry per claimed property)."""
import json, os
ROOT = os.path.dirname(os.path.dirname(os.path.abspath(__file__)))
ALL = [f"C{i:02d}" for i in range(1, 21)]

NA = {
    "C07": "pure function of (screen state, one ED/EL/ECH/ICH/DCH/DECALN command): no schedule, fault, crash-point, cancellation or interleaving dimension for a simulator to own; only model-based input generation would remain, which is not this technique (DESIGN.md §0.1, §5 C07, §7)",
    "C08": "pure left fold over the SGR parameters received, read back through accessors: no environment decision (chunking, resize timing, restart, consumer, damage, configuration) enters the statement (DESIGN.md §0.1, §5 C08, §7)",
}

# id -> (technique, level text, level_note, design_ref)
CHECKS = {
    "C01": ("deterministic simulation with fault injection: seeded chaos sessions (cuts, resizes, snapshots, drain policies, stream damage) with a panic/hang invariant after every call",
            "Seeded exploration: every public operation is driven by a PRNG-scheduled environment (chunking, resize timing, snapshot/restart, consumer policy, stream damage, all sizes and limits) in a build with overflow and bounds checks; each call must return (catch_unwind) within the hang limit. Sampling, not proof: a clean batch is evidence.",
            "trusts: catch_unwind sees every panic (panic=unwind build, overflow-checks and debug-assertions on); hang = run > 60 s; allocation failure and mem::forget(Changes) out of scope", "§5 C01"),
    "C02": ("deterministic simulation with fault injection: geometry invariants evaluated after every simulated call of chaos sessions",
            "Seeded exploration: the statement's geometry invariants are evaluated through the public API after every feed_str / feed(char) / resize of PRNG-scheduled chaos sessions (resizes while the alternate screen shows, mid-sequence, with wrap pending; damaged streams; all sizes and limits).",
            "trusts: TextUnwrapper::push as the reader of the soft-wrap mark; 'col == cols only by printing' is checked as a necessary condition via the lock-step parser's function stream", "§5 C02"),
}

def main():
    checks = []
    for pid in ALL:
        if pid not in CHECKS:
            continue
        tech, text, note, ref = CHECKS[pid]
        checks.append({
            "property_id": pid,
            "quick_cmd": f"bin/check {pid} --tier quick",
            "thorough_cmd": f"bin/check {pid} --tier thorough",
            "evidence_file": f"evidence/{pid}.json",
            "replay_cmd_template": "bin/check --replay {path}",
            "engine": "avt-sim",
            "level_claimed": {"category": "exploration", "text": text, "design_ref": ref},
            "level_note": note,
            "technique": tech,
        })
    na = []
    for pid in ALL:
        if pid in CHECKS:
            continue
        reason = NA.get(pid, "check under construction (DESIGN.md §5); will be claimed once its simulated check is built and clean on the unchanged tree")
        na.append({"property_id": pid, "reason": reason})
    m = {
        "version": 1,
        "setup_cmd": "bin/build",
        "hooks": {
            "guard": "avt_verif",
            "enable": "none needed: no hook exists in /repo (avt is single-threaded, clock-free and I/O-free; every seam is the public API). The cfg name is reserved only.",
            "baseline_off_cmd": "cd /repo && cargo test --workspace --no-fail-fast --offline",
            "source_commits": [],
            "add_only": True,
        },
        "engines": [{
            "name": "avt-sim", "path": "sim", "serves_properties": sorted(CHECKS.keys()),
            "kind_free_text": "seeded deterministic simulator of avt's environment (chunking, resize timing, snapshot/restart, scrollback consumer, stream damage, configuration) with invariant, twin-execution and reference-model oracles; one PRNG per run, concrete event traces as replay files",
        }],
        "checks": checks,
        "notes": "Default VERIF_SEED=1. Exit 0 = held on everything explored, 1 = VIOLATION line, 2 = harness error (never a verdict). See DESIGN.md.",
        "not_applicable": na,
    }
    json.dump(m, open(os.path.join(ROOT, "MANIFEST.json"), "w"), indent=1)
    print("MANIFEST.json:", len(checks), "checks,", len(na), "not applicable")

if __name__ == "__main__":
    main()
