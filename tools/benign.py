#!/usr/bin/env python3
"""Behaviour-preserving refactorings written by independent sub-agents: every check must stay silent.

  tools/benign.py import <agent-out-dir> <area>   keep those that apply to HEAD and keep the 65 tests green
  tools/benign.py run [prefix]                    apply each to /repo, run ALL quick checks (exit 0 expected), undo
"""
import json, os, shutil, subprocess, sys, time, glob

ROOT = os.path.dirname(os.path.dirname(os.path.abspath(__file__)))
BEN = os.path.join(ROOT, "benign")
WT = "/tmp/avt-seed-verify-wt"
IDS = ["C01", "C02", "C03", "C04", "C05", "C06", "C09", "C10", "C11", "C12", "C13", "C14", "C15", "C16", "C17", "C18", "C19", "C20"]
if os.environ.get("BENIGN_IDS"):
    # a subset (e.g. only the checks whose generator or oracle changed since the last full run)
    IDS = os.environ["BENIGN_IDS"].split(",")


def sh(cmd, cwd=None, timeout=3600):
    os.environ["VERIF_EVIDENCE_DIR"] = "/tmp/avt-sensitivity-evidence"
    return subprocess.run(cmd, shell=True, cwd=cwd, stdout=subprocess.PIPE, stderr=subprocess.STDOUT, text=True, timeout=timeout)


def tests_ok(out):
    return "FAILED" not in out and "error" not in out and out.count("test result: ok") >= 2


def do_import():
    src, area = sys.argv[2], sys.argv[3]
    head = sh("git -C /repo rev-parse HEAD").stdout.strip()
    if not os.path.isdir(WT):
        sh(f"git -C /repo worktree add --detach {WT} HEAD")
        sh(f"cp -r /repo/target {WT}/target")
    sh(f"git checkout -q --detach {head} && git reset -q --hard && rm -f tests/demo.rs", cwd=WT)
    for n in sorted(os.listdir(src)):
        d = os.path.join(src, n)
        if not os.path.isfile(os.path.join(d, "patch.diff")):
            continue
        sh("git checkout -q -- .", cwd=WT)
        a = sh(f"git apply {d}/patch.diff", cwd=WT)
        if a.returncode != 0:
            print(area, n, "patch does not apply"); continue
        ok = all(tests_ok(sh("cargo test --offline 2>&1 | grep -E '^test result|^error|FAILED' | head", cwd=WT).stdout) for _ in range(3))
        sh("git checkout -q -- .", cwd=WT)
        print(area, n, "tests green x3:", ok, flush=True)
        if not ok:
            continue
        dst = os.path.join(BEN, f"{area}-{n}")
        os.makedirs(dst, exist_ok=True)
        shutil.copy(os.path.join(d, "patch.diff"), dst)
        try:
            meta = json.load(open(os.path.join(d, "meta.json")))
        except Exception:
            meta = {}
        meta["origin"] = "independent sub-agent asked for a non-trivial behaviour-preserving refactoring (area: %s)" % area
        json.dump(meta, open(os.path.join(dst, "meta.json"), "w"), indent=1)


def do_run():
    prefix = sys.argv[2] if len(sys.argv) > 2 else ""
    if sh("git -C /repo status --porcelain --untracked-files=no").stdout.strip():
        print("refusing: /repo has uncommitted changes"); sys.exit(2)
    rows = []
    for d in sorted(glob.glob(os.path.join(BEN, "*"))):
        name = os.path.basename(d)
        if prefix and not name.startswith(prefix):
            continue
        a = sh(f"git -C /repo apply {d}/patch.diff")
        if a.returncode != 0:
            rows.append([name, "patch does not apply", ""]); continue
        alarms = []
        try:
            for c in IDS:
                r = sh(f"{ROOT}/bin/check {c} --tier quick", cwd=ROOT)
                if r.returncode != 0:
                    v = [l for l in r.stdout.splitlines() if l.startswith("VIOLATION") or "HARNESS" in l]
                    alarms.append(f"{c}(exit {r.returncode}): {v[0][:300] if v else ''}")
        finally:
            sh("git -C /repo checkout -- .")
        meta = json.load(open(os.path.join(d, "meta.json")))
        meta["checks"] = {"all_quick_checks_silent": not alarms, "alarms": alarms, "checks_run": IDS}
        json.dump(meta, open(os.path.join(d, "meta.json"), "w"), indent=1)
        rows.append([name, "silent" if not alarms else "ALARM", " ; ".join(alarms)])
        print(rows[-1], flush=True)
    with open(os.path.join(ROOT, "SENSITIVITY-benign.md"), "a") as f:
        f.write(f"\n## run {time.strftime('%Y-%m-%d %H:%M')} prefix={prefix!r}\n\n| refactoring | quick checks run: {','.join(IDS)} | alarms |\n|---|---|---|\n")
        for r in rows:
            f.write("| " + " | ".join(r) + " |\n")


if __name__ == "__main__":
    {"import": do_import, "run": do_run}[sys.argv[1]]()
