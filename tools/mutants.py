#!/usr/bin/env python3
"""Sensitivity catalogue: each entry is a small source change to asciinema/avt that is meant to break
exactly one property while compiling and keeping the existing test suite green.

  tools/mutants.py build   - (re)generate /verif/mutants/*.patch in a scratch worktree under /tmp,
                             keep only those that compile and keep `cargo test --offline` green
  tools/mutants.py run [--all-checks] [name-prefix]
                           - for every patch: git -C /repo apply, run the property's quick check
                             (expects exit 1), git -C /repo checkout -- . ; writes SENSITIVITY.md
"""
import json, os, subprocess, sys, time, glob

ROOT = os.path.dirname(os.path.dirname(os.path.abspath(__file__)))
MUT = os.path.join(ROOT, "mutants")
WT = "/tmp/avt-mut-wt"

# (name, property, file, old, new)
M = [
 # ---- C01
 ("c01-insert-count-unclamped", "C01", "src/buffer.rs",
  "    pub fn insert(&mut self, (col, row): VisualPosition, mut n: usize, cell: Cell) {\n        n = n.min(self.cols - col);",
  "    pub fn insert(&mut self, (col, row): VisualPosition, mut n: usize, cell: Cell) {\n        n = n.min(self.cols);"),
 ("c01-params-saturation-off-by-one", "C01", "src/parser.rs",
  "            if self.cur_param == PARAMS_LEN {\n                self.cur_param = PARAMS_LEN - 1;",
  "            if self.cur_param > PARAMS_LEN {\n                self.cur_param = PARAMS_LEN - 1;"),
 ("c01-subparam-cap-6", "C01", "src/parser.rs",
  "self.cur_part = (self.cur_part + 1).min(5);", "self.cur_part = (self.cur_part + 1).min(6);"),
 ("c01-excess-not-limited-by-cursor", "C01", "src/buffer.rs",
  "let excess = height_delta.min(inverted_cursor_row);", "let excess = height_delta.min(inverted_cursor_row + 1);"),
 ("c01-saved-row-clamp-removed", "C01", "src/terminal.rs",
  "        if self.saved_ctx.cursor_row >= self.rows {\n            self.saved_ctx.cursor_row = self.rows - 1;\n        }\n", ""),
 ("c01-dch-count-unclamped", "C01", "src/buffer.rs",
  "    pub fn delete(&mut self, (col, row): VisualPosition, mut n: usize, pen: &Pen) {\n        n = n.min(self.cols - col);",
  "    pub fn delete(&mut self, (col, row): VisualPosition, mut n: usize, pen: &Pen) {\n        n = n.min(self.cols);"),
 ("c01-param-digit-overflow", "C01", "src/parser.rs",
  "*number = (10 * (*number as u32) + (input as u32)) as u16;", "*number = 10 * *number + (input as u16);"),
 ("c01-contract-splits-off-row-by-row", "C01", "src/line.rs",
  "        let mut rows: Vec<Line> = self.cells[len..]\n            .chunks(len)\n            .map(|cells| Line {\n                cells: cells.to_vec(),\n                wrapped: true,\n            })\n            .collect();",
  "        let mut rows: Vec<Line> = Vec::new();\n        let mut rest = self.cells.split_off(len);\n        while !rest.is_empty() {\n            let tail = rest.split_off(len.min(rest.len()));\n            rows.push(Line { cells: rest, wrapped: true });\n            rest = tail;\n        }"),
 # ---- C02
 ("c02-last-line-keeps-wrap-after-truncate", "C02", "src/buffer.rs",
  "                    self.lines.truncate(line_count - excess);\n                    self.lines.last_mut().unwrap().wrapped = false;",
  "                    self.lines.truncate(line_count - excess);"),
 ("c02-no-reflow-on-switch-back", "C02", "src/terminal.rs",
  "                AltScreenBuffer => {\n                    self.switch_to_primary_buffer();\n                    self.reflow();\n                }",
  "                AltScreenBuffer => {\n                    self.switch_to_primary_buffer();\n                }"),
 ("c04-pending-wrap-kept-on-width-change", "C04", "src/terminal.rs",
  "        if self.cols != self.buffer.cols {\n            self.pending_wrap = false;\n        }\n", ""),
 ("c02-saved-col-clamp-removed", "C02", "src/terminal.rs",
  "        if self.saved_ctx.cursor_col >= self.cols {\n            self.saved_ctx.cursor_col = self.cols - 1;\n        }\n", ""),
 # ---- C03
 ("c03-csi-param-range-narrowed", "C03", "src/parser.rs",
  "(CsiParam, '\\u{30}'..='\\u{3b}') => {", "(CsiParam, '\\u{30}'..='\\u{39}') | (CsiParam, '\\u{3b}') => {"),
 ("c03-clear-exclusive", "C03", "src/parser.rs",
  "        for p in &mut self.params[..=self.cur_param] {\n            p.clear();", "        for p in &mut self.params[..self.cur_param] {\n            p.clear();"),
 ("c03-can-does-not-abort-osc", "C03", "src/parser.rs",
  "            (OscString, '\\u{20}'..='\\u{7f}') => {\n                self.osc_put(input);\n            }",
  "            (OscString, '\\u{20}'..='\\u{7f}') | (OscString, '\\u{18}') => {\n                self.osc_put(input);\n            }"),
 ("c03-param-clear-keeps-parts", "C03", "src/parser.rs",
  "        self.parts[..=self.cur_part].fill(0);\n        self.cur_part = 0;", "        self.parts[..self.cur_part.max(1)].fill(0);\n        self.cur_part = 0;"),
 ("c03-sgr-58-as-38", "C03", "src/parser.rs",
  "                [38, 5, idx] => {", "                [38, 5, idx] | [58, 5, idx] => {"),
 ("c03-cup-second-param-from-third", "C03", "src/parser.rs",
  "(None, 'f') => Some(Cup(ps[0].as_u16(), ps[1].as_u16())),", "(None, 'f') => Some(Cup(ps[0].as_u16(), ps[self.cur_param.min(1)].as_u16())),"),
 # ---- C04
 ("c04-wrap-mark-on-new-row", "C04", "src/terminal.rs",
  "            } else if self.cursor.row < self.rows - 1 {\n                self.buffer.wrap(self.cursor.row);\n                self.do_move_cursor_to_row(self.cursor.row + 1);\n            }",
  "            } else if self.cursor.row < self.rows - 1 {\n                self.do_move_cursor_to_row(self.cursor.row + 1);\n                self.buffer.wrap(self.cursor.row - 1 + (self.insert_mode as usize));\n            }"),
 ("c04-drawing-range-starts-late", "C04", "src/charset.rs",
  "if ('\\x60'..'\\x7f').contains(&input) {", "if ('\\x61'..'\\x7f').contains(&input) {"),
 ("c04-rep-one-short-at-edge", "C04", "src/terminal.rs",
  "            for _n in 0..n {\n                self.print(char);\n            }",
  "            let n = if self.pending_wrap && n > 1 { n - 1 } else { n };\n            for _n in 0..n {\n                self.print(char);\n            }"),
 ("c04-insert-ignored-next-to-last-col", "C04", "src/terminal.rs",
  "            if self.insert_mode {\n                self.buffer\n                    .insert((self.cursor.col, self.cursor.row), 1, cell);",
  "            if self.insert_mode && next_col + 1 < self.cols {\n                self.buffer\n                    .insert((self.cursor.col, self.cursor.row), 1, cell);"),
 ("c04-autowrap-off-advances", "C04", "src/terminal.rs",
  "            if self.auto_wrap_mode {\n                self.do_move_cursor_to_col(self.cols);\n                self.pending_wrap = true;\n            }",
  "            if self.auto_wrap_mode || self.insert_mode {\n                self.do_move_cursor_to_col(self.cols);\n                self.pending_wrap = true;\n            }"),
 # ---- C05
 ("c05-cuu-ignores-start-above-margin", "C05", "src/terminal.rs",
  "        new_y = if self.cursor.row < self.top_margin {\n            new_y.max(0)", "        new_y = if self.cursor.row <= self.top_margin && self.top_margin == 0 {\n            new_y.max(0)"),
 ("c05-bs-from-pending-moves-one", "C05", "src/terminal.rs",
  "        if self.pending_wrap {\n            self.move_cursor_to_rel_col(-2);", "        if self.pending_wrap && self.cols > 2 {\n            self.move_cursor_to_rel_col(-2);"),
 ("c05-vpa-ignores-origin", "C05", "src/terminal.rs",
  "    fn vpa(&mut self, n: u16) {\n        self.move_cursor_to_row(as_usize(n, 1) - 1);", "    fn vpa(&mut self, n: u16) {\n        self.do_move_cursor_to_row((as_usize(n, 1) - 1).min(self.rows - 1));"),
 ("c05-cht-counts-from-zero", "C05", "src/tabs.rs",
  "self.0.iter().skip_while(|t| pos >= **t).nth(n - 1).copied()", "self.0.iter().skip_while(|t| pos >= **t).nth(n.min(3) - 1).copied()"),
 ("c05-decom-reset-does-not-home", "C05", "src/terminal.rs",
  "                Origin => {\n                    self.origin_mode = false;\n                    self.move_cursor_home();", "                Origin => {\n                    self.origin_mode = false;\n                    self.do_move_cursor_to_col(0);"),
 # ---- C06
 ("c06-scrollback-from-row-one-region", "C06", "src/buffer.rs",
  "        if range.start == 0 {\n            if range.end == self.rows {", "        if range.start <= (self.rows > 5) as usize {\n            if range.end == self.rows {"),
 ("c06-blank-rows-default-pen-inner", "C06", "src/buffer.rs",
  "            self[range].rotate_left(n);\n            self.clear((end - n)..end, pen);", "            self[range].rotate_left(n);\n            self.clear((end - n)..end, &Pen::default());"),
 ("c06-il-range-to-screen-end", "C06", "src/terminal.rs",
  "    fn il(&mut self, n: u16) {\n        let range = if self.cursor.row <= self.bottom_margin {", "    fn il(&mut self, n: u16) {\n        let range = if self.cursor.row < self.bottom_margin || self.bottom_margin == self.rows - 1 {"),
 ("c06-decstbm-accepts-equal", "C06", "src/terminal.rs",
  "        if top < bottom && bottom < self.rows {", "        if top <= bottom && bottom < self.rows {"),
 ("c06-scroll-down-keeps-wrap-above", "C06", "src/buffer.rs",
  "        if start > 0 {\n            self[start - 1].wrapped = false;\n        }\n\n        self[end - 1].wrapped = false;", "        self[end - 1].wrapped = false;"),
 ("c06-su-count-capped-at-rows-minus-one", "C06", "src/buffer.rs",
  "    pub fn scroll_up(&mut self, range: Range<usize>, mut n: usize, pen: &Pen) {\n        n = n.min(range.end - range.start);", "    pub fn scroll_up(&mut self, range: Range<usize>, mut n: usize, pen: &Pen) {\n        n = n.min((range.end - range.start).max(2) - (range.start > 0) as usize);"),
 # ---- C09
 ("c09-eager-wrap-mark", "C09", "src/terminal.rs",
  "            if self.auto_wrap_mode {\n                self.do_move_cursor_to_col(self.cols);\n                self.pending_wrap = true;\n            }", "            if self.auto_wrap_mode {\n                self.do_move_cursor_to_col(self.cols);\n                self.pending_wrap = true;\n                if self.cols == 1 {\n                    self.buffer.wrap(self.cursor.row);\n                }\n            }"),
 ("c09-scroll-clears-mark-of-leaving-row", "C09", "src/buffer.rs",
  "            if range.end == self.rows {\n                self.extend(n, self.cols, pen);", "            if range.end == self.rows {\n                if self.rows == 1 {\n                    self.lines.last_mut().unwrap().wrapped = false;\n                }\n                self.extend(n, self.cols, pen);"),
 # ---- C10
 ("c10-contract-trims-wrapped", "C10", "src/line.rs",
  "        if !self.wrapped {\n            let trimmed_len = self.len() - self.trailers();\n            self.cells.truncate(len.max(trimmed_len));\n        }", "        {\n            let trimmed_len = self.len() - self.trailers();\n            self.cells.truncate(len.max(trimmed_len));\n        }"),
 ("c10-extend-trims-wrapped-other", "C10", "src/line.rs",
  "        if !other.wrapped {\n            other.trim();\n        }\n\n        if needed < other.len() {", "        other.trim();\n\n        if needed < other.len() {"),
 ("c10-relative-position-unclamped-col", "C10", "src/buffer.rs",
  "        rel_col = rel_col.min(cols - 1);", "        rel_col = rel_col.min(cols);"),
 ("c10-taller-ignores-scrollback-shift", "C10", "src/buffer.rs",
  "                if cursor.1 < old_rows {\n                    cursor.1 += cursor_row_shift;\n                }", "                if cursor.1 + 1 < old_rows {\n                    cursor.1 += cursor_row_shift;\n                }"),
 # ---- C11
 ("c11-dump-omits-tabs-when-fewer", "C11", "src/terminal.rs",
  "        if self.tabs != Tabs::new(self.cols) {", "        if self.tabs != Tabs::new(self.cols) && (&self.tabs).into_iter().count() > 0 {"),
 ("c11-dump-omits-new-line-mode", "C11", "src/terminal.rs",
  "        if self.new_line_mode {\n            // enable new line mode\n            seq.push_str(\"\\u{9b}20h\");\n        }", "        if self.new_line_mode && self.insert_mode {\n            // enable new line mode\n            seq.push_str(\"\\u{9b}20h\");\n        }"),
 ("c11-dump-omits-g1", "C11", "src/terminal.rs",
  "        if self.charsets[1] == Charset::Drawing {", "        if self.charsets[1] == Charset::Drawing && self.active_charset == 1 {"),
 ("c11-dump-origin-before-margins-swapped", "C11", "src/terminal.rs",
  "        if self.top_margin > 0 || self.bottom_margin < self.rows - 1 {\n            seq.push_str(&format!(", "        if self.top_margin > 0 && self.bottom_margin < self.rows - 1 {\n            seq.push_str(&format!("),
 ("c11-dump-rep-count-off-by-one", "C11", "src/buffer.rs",
  "        if count > 5 {\n            dump.push_str(&format!(\"{}\\x1b[{}b\", prev, count - 1));\n        } else {", "        if count > 5 {\n            dump.push_str(&format!(\"{}\\x1b[{}b\", prev, count - 1 - (count > 40) as usize));\n        } else {"),
 ("c11-parser-dump-drops-intermediate", "C11", "src/parser.rs",
  "                let s = &format!(\"\\u{9b}{intermediates}{params}\");", "                let s = &format!(\"\\u{9b}{params}\");"),
 ("c11-pen-dump-drops-blink", "C11", "src/pen.rs",
  "        if self.is_blink() {\n            s.push_str(\";5\");\n        }", "        if self.is_blink() && !self.is_faint() {\n            s.push_str(\";5\");\n        }"),
 ("c11-bright-colour-base", "C11", "src/color.rs",
  "Indexed(c) if *c < 16 => (base + 52 + c).to_string(),", "Indexed(c) if *c < 16 => (base + 52 + c - (base / 40)).to_string(),"),
 ("c11-alt-saved-ctx-not-dumped-when-primary", "C11", "src/terminal.rs",
  "        if self.active_buffer_type == BufferType::Primary && !alternate_ctx.is_default() {", "        if self.active_buffer_type == BufferType::Primary && !alternate_ctx.is_default() && primary_ctx.is_default() {"),
 ("c11-cursor-hidden-not-dumped-on-alt", "C11", "src/terminal.rs",
  "        if !self.cursor.visible {", "        if !self.cursor.visible && self.active_buffer_type == BufferType::Primary {"),
 # ---- C12
 ("c12-feed-str-resets-intermediate", "C12", "src/vt.rs",
  "        let lines = self.terminal.changes();\n        let scrollback = self.terminal.gc();\n\n        Changes { lines, scrollback }\n    }\n\n    pub fn feed(", "        if self.parser.state == crate::parser::State::CsiIntermediate {\n            self.parser.state = crate::parser::State::CsiIgnore;\n        }\n        let lines = self.terminal.changes();\n        let scrollback = self.terminal.gc();\n\n        Changes { lines, scrollback }\n    }\n\n    pub fn feed("),
 ("c12-changes-clears-pending-wrap", "C12", "src/terminal.rs",
  "        let changes = self.dirty_lines.to_vec();\n        self.dirty_lines.clear();", "        let changes = self.dirty_lines.to_vec();\n        self.dirty_lines.clear();\n        if self.pending_wrap && !self.auto_wrap_mode {\n            self.pending_wrap = false;\n            self.cursor.col = self.cols - 1;\n        }"),
 ("c12-gc-unwraps-top-line", "C12", "src/buffer.rs",
  "            if scrollback_size > limit.hard {\n                let excess = scrollback_size - limit.soft;", "            if scrollback_size > limit.hard {\n                let excess = scrollback_size - limit.soft;\n                let last = self.lines.len() - 1;\n                self.lines[last].wrapped = false;\n                if self.rows > 1 { self.lines[last - 1].wrapped = false; }"),
 # ---- C13
 ("c13-hard-limit-20-percent", "C13", "src/buffer.rs",
  "hard: l + l / 10, // 10% bigger than soft", "hard: l + l / 5, // 10% bigger than soft"),
 ("c13-no-gc-of-alternate", "C13", "src/terminal.rs",
  "        let lines = self.buffer.gc();\n\n        if self.active_buffer_type == BufferType::Alternate {\n            return Box::new(std::iter::empty());\n        }", "        if self.active_buffer_type == BufferType::Alternate {\n            return Box::new(std::iter::empty());\n        }\n\n        let lines = self.buffer.gc();"),
 ("c13-resize-does-not-request-trim", "C13", "src/buffer.rs",
  "        self.cols = new_cols;\n        self.rows = new_rows;\n        self.trim_needed = true;", "        self.cols = new_cols;\n        self.rows = new_rows;\n        self.trim_needed = self.trim_needed || new_rows != old_rows;"),
 ("c13-trim-compares-with-soft-plus-rows", "C13", "src/buffer.rs",
  "            let scrollback_size = line_count - self.rows;\n\n            if scrollback_size > limit.hard {", "            let scrollback_size = line_count - self.rows;\n\n            if scrollback_size > limit.hard + (self.cols < 3) as usize {"),
 # ---- C14
 ("c14-drain-one-short", "C14", "src/buffer.rs",
  "                return Some(self.lines.drain(..excess));", "                let keep = (excess > 3) as usize;\n                self.lines.remove(0);\n                return Some(self.lines.drain(..excess - 1 - keep + keep));"),
 ("c06-partial-scroll-inserts-one-early", "C06", "src/buffer.rs",
  "                let index = self.lines.len() - self.rows + range.end;", "                let index = self.lines.len() - self.rows + range.end - (n > 1) as usize;"),
 ("c14-alt-gc-leaks", "C14", "src/terminal.rs",
  "        if self.active_buffer_type == BufferType::Alternate {\n            return Box::new(std::iter::empty());\n        }\n\n        match lines {", "        if self.active_buffer_type == BufferType::Alternate && self.rows > 1 {\n            return Box::new(std::iter::empty());\n        }\n\n        match lines {"),
 # ---- C15 (delete dirty marks)
 ("c15-ich-not-marked", "C15", "src/terminal.rs",
  "            Cell::blank(self.pen),\n        );\n\n        self.dirty_lines.add(self.cursor.row);\n    }\n\n    fn cuu", "            Cell::blank(self.pen),\n        );\n    }\n\n    fn cuu"),
 ("c15-ed-above-misses-cursor-row", "C15", "src/terminal.rs",
  "self.dirty_lines.extend(0..self.cursor.row + 1);", "self.dirty_lines.extend(0..self.cursor.row);"),
 ("c15-scroll-down-range-short", "C15", "src/terminal.rs",
  "        self.buffer.scroll_down(range.clone(), n, &self.pen);\n        self.dirty_lines.extend(range);", "        self.buffer.scroll_down(range.clone(), n, &self.pen);\n        self.dirty_lines.extend(range.start..range.end - 1);"),
 ("c15-decaln-last-row", "C15", "src/terminal.rs",
  "                self.buffer.print((col, row), '\\u{45}'.into());\n            }\n\n            self.dirty_lines.add(row);", "                self.buffer.print((col, row), '\\u{45}'.into());\n            }\n\n            self.dirty_lines.add(row.min(self.rows.saturating_sub(2)));"),
 ("c15-wrap-scroll-marks-only-cursor-row", "C15", "src/terminal.rs",
  "        self.buffer.scroll_up(range.clone(), n, &self.pen);\n        self.dirty_lines.extend(range);\n    }\n\n    fn scroll_down_in_region", "        self.buffer.scroll_up(range.clone(), n, &self.pen);\n        self.dirty_lines.extend(range.start + (n > 2) as usize..range.end);\n    }\n\n    fn scroll_down_in_region"),
 ("c15-hard-reset-keeps-flags", "C15", "src/terminal.rs",
  "        self.dirty_lines = DirtyLines::new(self.rows);\n    }\n\n    fn primary_buffer", "        self.dirty_lines.resize(self.rows);\n    }\n\n    fn primary_buffer"),
 # ---- C16
 ("c16-alt-built-with-default-pen", "C16", "src/terminal.rs",
  "self.buffer = Buffer::new(self.cols, self.rows, Some(0), Some(&self.pen));", "self.buffer = Buffer::new(self.cols, self.rows, Some(0), None);"),
 ("c16-text-reads-active-buffer", "C16", "src/terminal.rs",
  "    pub fn text(&self) -> Vec<String> {\n        self.primary_buffer().text()", "    pub fn text(&self) -> Vec<String> {\n        self.buffer.text()"),
 ("c16-1049l-restores-before-switch", "C16", "src/terminal.rs",
  "                SaveCursorAltScreenBuffer => {\n                    self.switch_to_primary_buffer();\n                    self.restore_cursor();\n                    self.reflow();", "                SaveCursorAltScreenBuffer => {\n                    self.restore_cursor();\n                    self.switch_to_primary_buffer();\n                    self.reflow();"),
 ("c16-alt-reused-on-reentry", "C16", "src/terminal.rs",
  "            mem::swap(&mut self.buffer, &mut self.other_buffer);\n            self.buffer = Buffer::new(self.cols, self.rows, Some(0), Some(&self.pen));", "            mem::swap(&mut self.buffer, &mut self.other_buffer);\n            if self.buffer.cols != self.cols || self.buffer.rows != self.rows || self.pen.is_default() {\n                self.buffer = Buffer::new(self.cols, self.rows, Some(0), Some(&self.pen));\n            }"),
 # ---- C17
 ("c17-save-omits-auto-wrap", "C17", "src/terminal.rs",
  "        self.saved_ctx.auto_wrap_mode = self.auto_wrap_mode;\n", ""),
 ("c17-restore-omits-origin", "C17", "src/terminal.rs",
  "        self.origin_mode = self.saved_ctx.origin_mode;\n", ""),
 ("c17-contexts-not-swapped-on-return", "C17", "src/terminal.rs",
  "            self.active_buffer_type = BufferType::Primary;\n            mem::swap(&mut self.saved_ctx, &mut self.alternate_saved_ctx);", "            self.active_buffer_type = BufferType::Primary;\n            if self.alternate_saved_ctx.is_default() {\n                mem::swap(&mut self.saved_ctx, &mut self.alternate_saved_ctx);\n            } else {\n                mem::swap(&mut self.saved_ctx, &mut self.alternate_saved_ctx);\n                self.alternate_saved_ctx.pen = self.saved_ctx.pen;\n            }"),
 ("c17-soft-reset-clears-other-ctx", "C17", "src/terminal.rs",
  "        self.active_charset = 0;\n        self.saved_ctx = SavedCtx::default();\n    }\n\n    fn hard_reset", "        self.active_charset = 0;\n        self.saved_ctx = SavedCtx::default();\n        self.alternate_saved_ctx = SavedCtx::default();\n    }\n\n    fn hard_reset"),
 ("c17-save-column-not-clamped", "C17", "src/terminal.rs",
  "self.saved_ctx.cursor_col = self.cursor.col.min(self.cols - 1);", "self.saved_ctx.cursor_col = self.cursor.col.min(self.cols);"),
 # ---- C18
 ("c18-contract-keeps-boundary", "C18", "src/tabs.rs",
  "let index = self.0.partition_point(|t| t < &pos);", "let index = self.0.partition_point(|t| t <= &pos);"),
 ("c18-before-inclusive", "C18", "src/tabs.rs",
  ".skip_while(|t| pos <= **t)", ".skip_while(|t| pos < **t)"),
 ("c18-expand-first-stop-skipped", "C18", "src/tabs.rs",
  "        for t in (start..end).step_by(8) {\n            self.0.push(t);", "        for t in (start..end).step_by(8).skip((end - start > 24) as usize) {\n            self.0.push(t);"),
 ("c18-unset-neighbour", "C18", "src/tabs.rs",
  "        if let Ok(index) = self.0.binary_search(&pos) {\n            self.0.remove(index);", "        if let Ok(index) = self.0.binary_search(&pos) {\n            self.0.remove(index.min(self.0.len().saturating_sub(2)));"),
 # ---- C19
 ("c19-reset-keeps-tabs", "C19", "src/terminal.rs", "        self.tabs = Tabs::new(self.cols);\n        self.cursor = Cursor::default();", "        self.cursor = Cursor::default();"),
 ("c19-reset-keeps-charsets", "C19", "src/terminal.rs", "        self.pen = Pen::default();\n        self.charsets = [Charset::Ascii, Charset::Ascii];\n        self.active_charset = 0;\n        self.insert_mode = false;\n        self.origin_mode = false;\n        self.auto_wrap_mode = true;", "        self.pen = Pen::default();\n        self.active_charset = 0;\n        self.insert_mode = false;\n        self.origin_mode = false;\n        self.auto_wrap_mode = true;"),
 ("c19-reset-keeps-new-line-mode", "C19", "src/terminal.rs", "        self.new_line_mode = false;\n        self.cursor_keys_mode", "        self.cursor_keys_mode"),
 ("c19-reset-keeps-alt-saved-ctx", "C19", "src/terminal.rs", "        self.saved_ctx = SavedCtx::default();\n        self.alternate_saved_ctx = SavedCtx::default();\n        self.dirty_lines = DirtyLines::new(self.rows);", "        self.saved_ctx = SavedCtx::default();\n        self.dirty_lines = DirtyLines::new(self.rows);"),
 ("c19-reset-keeps-margins", "C19", "src/terminal.rs", "        self.pending_wrap = false;\n        self.top_margin = 0;\n        self.bottom_margin = self.rows - 1;\n        self.saved_ctx = SavedCtx::default();\n        self.alternate_saved_ctx", "        self.pending_wrap = false;\n        self.saved_ctx = SavedCtx::default();\n        self.alternate_saved_ctx"),
 ("c19-reset-keeps-cursor-visibility", "C19", "src/terminal.rs", "        self.tabs = Tabs::new(self.cols);\n        self.cursor = Cursor::default();", "        self.tabs = Tabs::new(self.cols);\n        self.cursor = Cursor { visible: self.cursor.visible, ..Cursor::default() };"),
 ("c09-text-trims-wrapped-rows", "C09", "src/buffer.rs",
  "            current.push_str(&line.text());\n\n            if !line.wrapped {", "            current.push_str(line.text().trim_end());\n\n            if !line.wrapped {"),
 ("c02-dirty-lines-only-grow", "C02", "src/terminal/dirty_lines.rs",
  "        self.0.resize(len, false);", "        if len > self.0.len() {\n            self.0.resize(len, false);\n        }"),
 ("c20-same-size-resize-keeps-flags", "C20", "src/vt.rs",
  "        self.terminal.resize(cols, rows);\n\n        let lines = self.terminal.changes();", "        let resized = self.terminal.resize(cols, rows);\n\n        let lines = if resized { self.terminal.changes() } else { Vec::new() };"),
 ("c13-partial-scroll-does-not-request-trim", "C13", "src/buffer.rs",
  "                for _ in 0..n {\n                    self.lines.insert(index, line.clone());\n                }\n            }\n        } else {", "                for _ in 0..n {\n                    self.lines.insert(index, line.clone());\n                }\n                return;\n            }\n        } else {"),
 ("c01-reflow-skipped-on-1047-entry", "C01", "src/terminal.rs",
  "                AltScreenBuffer => {\n                    self.switch_to_alternate_buffer();\n                    self.reflow();\n                }", "                AltScreenBuffer => {\n                    self.switch_to_alternate_buffer();\n                }"),
 ("c09-unlimited-becomes-1000", "C09", "src/buffer.rs",
  "        let scrollback_limit = scrollback_limit.map(|l| ScrollbackLimit {", "        let scrollback_limit = scrollback_limit.or(Some(2000)).map(|l| ScrollbackLimit {"),
 # ---- C20
 ("c20-sos-executes-lf", "C20", "src/parser.rs", "            (Escape, '\\u{5d}') => {\n                self.state = OscString;\n            }", "            (Escape, '\\u{5d}') => {\n                self.state = OscString;\n            }\n\n            (SosPmApcString, '\\u{0a}') => {\n                return self.execute(input);\n            }"),
 ("c20-sgr-ignores-intermediate", "C20", "src/parser.rs", "            (None, 'm') => Some(Sgr(SgrOps {", "            (None, 'm') | (Some(' '), 'm') => Some(Sgr(SgrOps {"),
 ("c20-private-ed", "C20", "src/parser.rs", "            (None, 'J') => match ps[0].as_u16() {", "            (None, 'J') | (Some('?'), 'J') => match ps[0].as_u16() {"),
 ("c20-apc-ends-at-bel", "C20", "src/parser.rs", "            (OscString, '\\u{07}') => {", "            (OscString, '\\u{07}') | (SosPmApcString, '\\u{07}') => {"),
]


def sh(cmd, cwd=None, timeout=900):
    os.environ["VERIF_EVIDENCE_DIR"] = "/tmp/avt-sensitivity-evidence"
    return subprocess.run(cmd, shell=True, cwd=cwd, stdout=subprocess.PIPE, stderr=subprocess.STDOUT, text=True, timeout=timeout)


def build():
    os.makedirs(MUT, exist_ok=True)
    if not os.path.isdir(WT):
        sh(f"git -C /repo worktree add --detach {WT} HEAD")
        sh(f"cp -r /repo/target {WT}/target")
    else:
        sh("git checkout -q --detach && git reset -q --hard", cwd=WT)
        head = sh("git -C /repo rev-parse HEAD").stdout.strip()
        sh(f"git checkout -q --detach {head}", cwd=WT)
    only = sys.argv[2] if len(sys.argv) > 2 else ""
    status = {}
    for name, prop, f, old, new in M:
        if only and not name.startswith(only):
            continue
        out = os.path.join(MUT, name + ".patch")
        sh("git checkout -q -- .", cwd=WT)
        p = os.path.join(WT, f)
        s = open(p).read()
        if s.count(old) != 1:
            status[name] = f"SKIP: pattern occurs {s.count(old)} times"
            print(name, status[name]); continue
        open(p, "w").write(s.replace(old, new))
        r = sh("cargo test --offline 2>&1 | grep -E '^test result|^error|FAILED' | head -5", cwd=WT)
        ok = "error" not in r.stdout and "FAILED" not in r.stdout and r.stdout.count("test result: ok") >= 2
        if ok:
            d = sh("git diff -- src", cwd=WT).stdout
            open(out, "w").write(f"# property: {prop}\n# name: {name}\n" + d)
            status[name] = "ok"
        else:
            if os.path.exists(out):
                os.remove(out)
            status[name] = "REJECTED (does not compile or breaks the test suite): " + r.stdout.strip().replace("\n", " | ")[:160]
        print(name, status[name], flush=True)
    sh("git checkout -q -- .", cwd=WT)
    json.dump(status, open(os.path.join(MUT, "build-status.json"), "w"), indent=1)


def run():
    allchecks = "--all-checks" in sys.argv
    prefix = next((a for a in sys.argv[2:] if not a.startswith("--")), "")
    ids = ["C01", "C02", "C03", "C04", "C05", "C06", "C09", "C10", "C11", "C12", "C13", "C14", "C15", "C16", "C17", "C18", "C19", "C20"]
    rows = []
    dirty = sh("git -C /repo status --porcelain --untracked-files=no").stdout.strip()
    if dirty:
        print("refusing: /repo has uncommitted changes"); sys.exit(2)
    for pf in sorted(glob.glob(os.path.join(MUT, "*.patch"))):
        name = os.path.basename(pf)[:-6]
        if prefix and not name.startswith(prefix):
            continue
        prop = open(pf).readline().split(":")[1].strip()
        r = sh(f"git -C /repo apply {pf}")
        if r.returncode != 0:
            rows.append((name, prop, "patch does not apply", "", "")); continue
        try:
            t0 = time.time()
            c = sh(f"{ROOT}/bin/check {prop} --tier quick", cwd=ROOT, timeout=1800)
            dt = time.time() - t0
            viol = [l for l in c.stdout.splitlines() if l.startswith("VIOLATION")]
            rule = viol[0].split("rule=")[1].split()[0] if viol else ""
            verdict = {0: "MISSED", 1: "caught", 2: "harness-error"}.get(c.returncode, str(c.returncode))
            others = []
            if allchecks:
                for o in ids:
                    if o == prop:
                        continue
                    oc = sh(f"{ROOT}/bin/check {o} --tier quick", cwd=ROOT, timeout=1800)
                    if oc.returncode != 0:
                        others.append(f"{o}:{oc.returncode}")
            rows.append((name, prop, verdict, rule, f"{dt:.0f}s", ",".join(others)))
            print(rows[-1], flush=True)
        finally:
            sh("git -C /repo checkout -- .")
    # restore evidence produced on mutated trees? evidence files were rewritten: regenerate is the
    # caller's job (bin/check on the clean tree)
    with open(os.path.join(ROOT, "SENSITIVITY-mutants.md"), "w") as f:
        f.write("# Sensitivity: planted mutants (tools/mutants.py run)\n\nEach mutant compiles and keeps the 65 existing tests green; the property's quick check must exit 1.\n\n| mutant | property | verdict | first rule | time | other checks that also fail |\n|---|---|---|---|---|---|\n")
        for r in rows:
            r = list(r) + [""] * (6 - len(r))
            f.write("| " + " | ".join(r) + " |\n")
        caught = sum(1 for r in rows if r[2] == "caught")
        f.write(f"\ncaught {caught} of {len(rows)}\n")
    print("caught", sum(1 for r in rows if r[2] == "caught"), "of", len(rows))


if __name__ == "__main__":
    {"build": build, "run": run}[sys.argv[1]]()
