#!/usr/bin/env python3
"""Regenerates /verif/SENSITIVITY.md from the meta.json files under seeded/ and benign/ and from
SENSITIVITY-mutants.md (the last verdicts recorded by tools/seeded.py, tools/benign.py, tools/mutants.py)."""
import glob, json, os, re

ROOT = os.path.dirname(os.path.dirname(os.path.abspath(__file__)))
ROUND = {"": "1", "h": "2 hard", "n": "3 novel", "a": "4 informed", "b": "5 informed"}


def main():
    rows = []
    for d in sorted(glob.glob(os.path.join(ROOT, "seeded", "*"))):
        name = os.path.basename(d)
        try:
            m = json.load(open(os.path.join(d, "meta.json")))
        except Exception:
            continue
        tag = re.search(r"-([a-z]?)\d+$", name).group(1)
        det = m.get("detection", {})
        others = det.get("other_checks_failing", [])
        if isinstance(others, list):
            others = ",".join(others)
        needs = str(m.get("needs") or det.get("summary_needs") or m.get("summary") or "")[:150].replace("|", "/").replace("\n", " ")
        rows.append([name, m.get("property", name[:3]), ROUND.get(tag, tag), det.get("verdict", "?"), str(det.get("rule", "")).split("/")[-1], others, needs])
    own = sum(1 for r in rows if r[3] == "caught")
    other = sum(1 for r in rows if r[3] != "caught" and r[5])
    nobody = [r[0] for r in rows if r[3] != "caught" and not r[5]]
    ben = []
    for d in sorted(glob.glob(os.path.join(ROOT, "benign", "*"))):
        try:
            m = json.load(open(os.path.join(d, "meta.json")))
        except Exception:
            continue
        ben.append((os.path.basename(d), m.get("checks", {}).get("all_quick_checks_silent")))
    mut_line = ""
    try:
        txt = open(os.path.join(ROOT, "SENSITIVITY-mutants.md")).read()
        caught = len(re.findall(r"\|\s*caught\s*\|", txt))
        total = caught + len(re.findall(r"\|\s*MISSED\s*\|", txt))
        mut_line = f"{caught} of {total} caught"
    except Exception:
        pass
    with open(os.path.join(ROOT, "SENSITIVITY.md"), "w") as f:
        f.write("# Sensitivity summary (final state; regenerate with tools/summary.py)\n\n")
        f.write(f"* seeded changes by sub-agents (`seeded/`): {len(rows)} kept; {own} caught by the quick check of the property they were written against, {other} caught only by another property's check (see DESIGN.md section 12 for why they are left there)" + (f", not caught: {nobody}" if nobody else "") + ".\n")
        f.write(f"* planted mutants (`mutants/`, `SENSITIVITY-mutants.md`): {mut_line}.\n")
        f.write(f"* behaviour-preserving refactorings (`benign/`, `SENSITIVITY-benign.md`): {sum(1 for b in ben if b[1])} of {len(ben)} leave all 18 quick checks silent.\n")
        f.write("* append-only logs of every run: `SENSITIVITY-seeded.md`, `SENSITIVITY-benign.md`.\n\n")
        f.write("| change | property | round | own quick check | catching rule | other checks that fail | what it needs |\n|---|---|---|---|---|---|---|\n")
        for r in rows:
            f.write("| " + " | ".join(r) + " |\n")
    print(f"seeded {len(rows)}: own {own}, other {other}, nobody {nobody}; benign {sum(1 for b in ben if b[1])}/{len(ben)}; mutants {mut_line}")


if __name__ == "__main__":
    main()
