#!/usr/bin/env python3
"""Seeded changes written by independent sub-agents (each was given only the text of one property and
its own scratch worktree).

  tools/seeded.py import <agent-out-dir> <PROP>
        verify each <agent-out-dir>/<n>/ myself in a scratch worktree (patch applies to /repo HEAD, the 65
        existing tests stay green, demo fails with the change and passes without) and keep the confirmed
        ones as /verif/seeded/<PROP>-<n>/{patch.diff,demo.rs,meta.json}
  tools/seeded.py run [prefix] [--all-checks] [--tier quick|thorough]
        for each kept change: git -C /repo apply, run the property's check (exit 1 expected),
        git -C /repo checkout -- . ; results -> /verif/SENSITIVITY-seeded.md
"""
import json, os, shutil, subprocess, sys, time, glob

ROOT = os.path.dirname(os.path.dirname(os.path.abspath(__file__)))
SEEDED = os.path.join(ROOT, "seeded")
WT = "/tmp/avt-seed-verify-wt"
IDS = ["C01", "C02", "C03", "C04", "C05", "C06", "C09", "C10", "C11", "C12", "C13", "C14", "C15", "C16", "C17", "C18", "C19", "C20"]


def sh(cmd, cwd=None, timeout=1800):
    os.environ["VERIF_EVIDENCE_DIR"] = "/tmp/avt-sensitivity-evidence"
    return subprocess.run(cmd, shell=True, cwd=cwd, stdout=subprocess.PIPE, stderr=subprocess.STDOUT, text=True, timeout=timeout)


def ensure_wt():
    head = sh("git -C /repo rev-parse HEAD").stdout.strip()
    if not os.path.isdir(WT):
        sh(f"git -C /repo worktree add --detach {WT} HEAD")
        sh(f"cp -r /repo/target {WT}/target")
    sh(f"git checkout -q --detach {head} && git reset -q --hard && rm -f tests/demo.rs", cwd=WT)


def tests_ok(out):
    return "FAILED" not in out and "error" not in out and out.count("test result: ok") >= 2


def do_import():
    src, prop = sys.argv[2], sys.argv[3]
    tag = sys.argv[4] if len(sys.argv) > 4 else ""
    ensure_wt()
    for n in sorted(os.listdir(src)):
        d = os.path.join(src, n)
        if not os.path.isfile(os.path.join(d, "patch.diff")):
            continue
        sh("git checkout -q -- . && rm -f tests/demo.rs", cwd=WT)
        a = sh(f"git apply {d}/patch.diff", cwd=WT)
        if a.returncode != 0:
            print(prop, n, "patch does not apply:", a.stdout[:200]); continue
        t = sh("cargo test --offline 2>&1 | grep -E '^test result|^error|FAILED' | head", cwd=WT).stdout
        ok_tests = tests_ok(t)
        # proptests are randomised: run the suite twice more
        for _ in range(2):
            if ok_tests:
                ok_tests = tests_ok(sh("cargo test --offline 2>&1 | grep -E '^test result|^error|FAILED' | head", cwd=WT).stdout)
        shutil.copy(os.path.join(d, "demo.rs"), os.path.join(WT, "tests", "demo.rs"))
        w = sh("cargo test --offline --test demo 2>&1 | tail -5", cwd=WT).stdout
        fails_with = "test result: FAILED" in w or "panicked" in w
        sh("git checkout -q -- src", cwd=WT)
        wo = sh("cargo test --offline --test demo 2>&1 | tail -5", cwd=WT).stdout
        passes_without = "test result: ok" in wo
        sh("rm -f tests/demo.rs", cwd=WT)
        verdict = ok_tests and fails_with and passes_without
        print(prop, n, "tests_green_with_change=", ok_tests, "demo_fails_with=", fails_with, "demo_passes_without=", passes_without, "->", "KEEP" if verdict else "DROP", flush=True)
        if not verdict:
            continue
        dst = os.path.join(SEEDED, f"{prop}-{tag}{n}")
        os.makedirs(dst, exist_ok=True)
        shutil.copy(os.path.join(d, "patch.diff"), dst)
        shutil.copy(os.path.join(d, "demo.rs"), dst)
        try:
            meta = json.load(open(os.path.join(d, "meta.json")))
        except Exception:
            meta = {}
        meta["property"] = prop
        ORIGINS = {
            "": "independent sub-agent given only the property text and a scratch worktree",
            "h": "independent sub-agent given only the property text and a scratch worktree (second round: asked for hard-to-trigger defects needing a conjunction of >= 3 conditions or an unusual scale)",
            "n": "independent sub-agent given the property text, a scratch worktree and the list of mechanisms already tried (third round: asked for different code sites and ideas)",
            "a": "informed sub-agent: property text, scratch worktree and a description of how the check works (fourth round: asked for violations outside what the check samples or compares)",
            "b": "informed sub-agent: property text, scratch worktree, a description of the hardened check and everything tried in rounds 1-4 (fifth round)",
        }
        meta["origin"] = ORIGINS.get(tag, ORIGINS[""])
        meta["confirmed_by_me"] = {
            "where": "scratch worktree of /repo HEAD under /tmp (removed afterwards)",
            "ran": ["git apply patch.diff", "cargo test --offline (3 times: all 65 tests green)", "cargo test --offline --test demo (fails with the change)", "git checkout -- src; cargo test --offline --test demo (passes)"],
            "tests_pass_with_change": True, "demo_fails_with_change": True, "demo_passes_without_change": True,
            "repo_head": sh("git -C /repo rev-parse --short HEAD").stdout.strip(),
        }
        json.dump(meta, open(os.path.join(dst, "meta.json"), "w"), indent=1)


def do_run():
    allchecks = "--all-checks" in sys.argv
    tier = "quick"
    if "--tier" in sys.argv:
        tier = sys.argv[sys.argv.index("--tier") + 1]
    args = [a for a in sys.argv[2:] if not a.startswith("--") and a not in ("quick", "thorough")]
    prefix = args[0] if args else ""
    if sh("git -C /repo status --porcelain --untracked-files=no").stdout.strip():
        print("refusing: /repo has uncommitted changes"); sys.exit(2)
    rows = []
    for d in sorted(glob.glob(os.path.join(SEEDED, "*"))):
        name = os.path.basename(d)
        if prefix and not name.startswith(prefix):
            continue
        meta = json.load(open(os.path.join(d, "meta.json")))
        prop = meta["property"]
        a = sh(f"git -C /repo apply {d}/patch.diff")
        if a.returncode != 0:
            rows.append([name, prop, "patch does not apply", "", "", ""]); continue
        try:
            t0 = time.time()
            c = sh(f"{ROOT}/bin/check {prop} --tier {tier}", cwd=ROOT)
            dt = time.time() - t0
            viol = [l for l in c.stdout.splitlines() if l.startswith("VIOLATION")]
            rule = viol[0].split("rule=")[1].split()[0] if viol and "rule=" in viol[0] else ""
            verdict = {0: "MISSED", 1: "caught", 2: "harness-error"}.get(c.returncode, str(c.returncode))
            others = []
            if allchecks or verdict != "caught":
                for o in IDS:
                    if o == prop:
                        continue
                    oc = sh(f"{ROOT}/bin/check {o} --tier quick", cwd=ROOT)
                    if oc.returncode != 0:
                        others.append(f"{o}:{'caught' if oc.returncode == 1 else 'err'}")
            rows.append([name, prop, verdict, rule, f"{dt:.0f}s", ",".join(others)])
            meta["detection"] = {"check": prop, "tier": tier, "verdict": verdict, "rule": rule, "other_checks_failing": others, "summary_needs": meta.get("needs", "")}
            json.dump(meta, open(os.path.join(d, "meta.json"), "w"), indent=1)
            print(rows[-1], flush=True)
        finally:
            sh("git -C /repo checkout -- .")
    with open(os.path.join(ROOT, "SENSITIVITY-seeded.md"), "a") as f:
        f.write(f"\n## run {time.strftime('%Y-%m-%d %H:%M')} tier={tier} prefix={prefix!r}\n\n| seeded change | property | verdict | first rule | time | other checks failing |\n|---|---|---|---|---|---|\n")
        for r in rows:
            f.write("| " + " | ".join(r) + " |\n")
        f.write(f"\ncaught {sum(1 for r in rows if r[2]=='caught')} of {len(rows)}\n")
    print("caught", sum(1 for r in rows if r[2] == "caught"), "of", len(rows))


if __name__ == "__main__":
    {"import": do_import, "run": do_run}[sys.argv[1]]()
